//go:build verif

package cmd

// C17, part "config": the forwarding handler is built the way the service
// builds it -- a generated `upstream:` section of the configuration file goes
// through the package's own parseConfig, validate and toInternal into
// forward.NewHandler -- and is then asked to fail over between scripted
// loopback servers.  Which configured server answered is decided by the
// servers' own records, not by anything the code under test reports.

import (
	"context"
	"encoding/binary"
	"fmt"
	"io"
	"net"
	"net/netip"
	"os"
	"path/filepath"
	"strings"
	"sync"
	"testing"
	"time"

	"github.com/AdguardTeam/AdGuardDNS/internal/dnsserver/forward"
	"github.com/AdguardTeam/golibs/logutil/slogutil"
	"github.com/miekg/dns"
	"github.com/prometheus/client_golang/prometheus"
	"pgregory.net/rapid"
	"verif.local/harness/vstat"
)

// vc17cTagName owns the TXT record that names the responding server.
const vc17cTagName = "responder.verif.test."

// vc17cSrv is a scripted DNS server on one UDP and one TCP socket with the
// same port.  It answers every request with a NOERROR reply that names it and
// records what it was asked.
type vc17cSrv struct {
	name string
	ip   netip.Addr
	port uint16

	mu      sync.Mutex
	queries int
	probes  []string

	up  bool
	udp *net.UDPConn
	tcp *net.TCPListener
	cs  map[net.Conn]struct{}
	wg  sync.WaitGroup
}

func (s *vc17cSrv) addr() netip.AddrPort { return netip.AddrPortFrom(s.ip, s.port) }

func (s *vc17cSrv) start() (err error) {
	pid := os.Getpid()
	// An address of this process only, so that a port that is closed on
	// purpose is not answered by some other test's socket.
	s.ip = netip.AddrFrom4([4]byte{127, 18, byte(pid >> 8), byte(pid)})
	for range 20 {
		var l *net.TCPListener
		l, err = net.ListenTCP("tcp4", net.TCPAddrFromAddrPort(netip.AddrPortFrom(s.ip, 0)))
		if err != nil {
			return err
		}

		s.port = l.Addr().(*net.TCPAddr).AddrPort().Port()
		_ = l.Close()
		if err = s.open(); err == nil {
			return nil
		}
	}

	return err
}

func (s *vc17cSrv) open() (err error) {
	if s.up {
		return nil
	}

	s.tcp, err = net.ListenTCP("tcp4", net.TCPAddrFromAddrPort(s.addr()))
	if err != nil {
		return err
	}

	s.udp, err = net.ListenUDP("udp4", net.UDPAddrFromAddrPort(s.addr()))
	if err != nil {
		_ = s.tcp.Close()

		return err
	}

	s.mu.Lock()
	s.cs = map[net.Conn]struct{}{}
	s.mu.Unlock()
	s.up = true
	s.wg.Add(2)
	go s.serveUDP(s.udp)
	go s.serveTCP(s.tcp)

	return nil
}

func (s *vc17cSrv) close() {
	if !s.up {
		return
	}

	s.up = false
	_ = s.udp.Close()
	_ = s.tcp.Close()
	s.mu.Lock()
	for c := range s.cs {
		_ = c.Close()
	}
	s.mu.Unlock()
	s.wg.Wait()
}

func (s *vc17cSrv) answer(reqBytes []byte) (out []byte) {
	req := &dns.Msg{}
	if req.Unpack(reqBytes) != nil || len(req.Question) != 1 {
		return nil
	}

	q := req.Question[0]
	s.mu.Lock()
	if strings.Contains(strings.ToLower(q.Name), ".hc.verif.test.") {
		s.probes = append(s.probes, q.Name)
	} else {
		s.queries++
	}
	s.mu.Unlock()

	r := (&dns.Msg{}).SetReply(req)
	r.Extra = append(r.Extra, &dns.TXT{
		Hdr: dns.RR_Header{Name: vc17cTagName, Rrtype: dns.TypeTXT, Class: dns.ClassINET, Ttl: 1},
		Txt: []string{s.name},
	})
	out, _ = r.Pack()

	return out
}

func (s *vc17cSrv) serveUDP(c *net.UDPConn) {
	defer s.wg.Done()

	buf := make([]byte, 65535)
	for {
		n, from, err := c.ReadFromUDPAddrPort(buf)
		if err != nil {
			return
		}

		if out := s.answer(append([]byte(nil), buf[:n]...)); out != nil {
			_, _ = c.WriteToUDPAddrPort(out, from)
		}
	}
}

func (s *vc17cSrv) serveTCP(l *net.TCPListener) {
	defer s.wg.Done()

	for {
		c, err := l.Accept()
		if err != nil {
			return
		}

		s.mu.Lock()
		s.cs[c] = struct{}{}
		s.mu.Unlock()
		s.wg.Add(1)
		go func() {
			defer s.wg.Done()
			defer func() {
				_ = c.Close()
				s.mu.Lock()
				delete(s.cs, c)
				s.mu.Unlock()
			}()

			for {
				var l uint16
				if binary.Read(c, binary.BigEndian, &l) != nil {
					return
				}

				req := make([]byte, l)
				if _, rerr := io.ReadFull(c, req); rerr != nil {
					return
				}

				out := s.answer(req)
				if out == nil {
					return
				}

				if _, werr := c.Write(append(binary.BigEndian.AppendUint16(nil, uint16(len(out))), out...)); werr != nil {
					return
				}
			}
		}()
	}
}

func (s *vc17cSrv) counts() (queries int, probes []string) {
	s.mu.Lock()
	defer s.mu.Unlock()

	return s.queries, append([]string(nil), s.probes...)
}

// vc17cRW records what the handler writes to the client.
type vc17cRW struct{ msgs []*dns.Msg }

func (w *vc17cRW) LocalAddr() net.Addr  { return &net.UDPAddr{IP: net.IP{127, 0, 0, 1}, Port: 53} }
func (w *vc17cRW) RemoteAddr() net.Addr { return &net.UDPAddr{IP: net.IP{127, 0, 0, 1}, Port: 12345} }

func (w *vc17cRW) WriteMsg(_ context.Context, _, resp *dns.Msg) (err error) {
	w.msgs = append(w.msgs, resp)

	return nil
}

func vc17cTagOf(m *dns.Msg) string {
	if m == nil {
		return ""
	}

	for _, rr := range m.Extra {
		if txt, ok := rr.(*dns.TXT); ok && txt.Hdr.Name == vc17cTagName && len(txt.Txt) == 1 {
			return txt.Txt[0]
		}
	}

	return ""
}

// vc17cServerConf is one generated entry of a `servers` list.
type vc17cServerConf struct {
	srv     *vc17cSrv
	scheme  string
	timeout time.Duration
}

func (c vc17cServerConf) network() forward.Network {
	return forward.Network(strings.TrimSuffix(c.scheme, "://"))
}

// vc17cCaseBudget: a case that takes longer than this (the machine is
// overloaded) may have outlived a backoff period; its verdict is not used.
const vc17cCaseBudget = 15 * time.Second

func TestVerifC17Config(t *testing.T) {
	st := vstat.New("C17", "cmd.config",
		"rapid: a generated `upstream:` configuration section (1-2 main and 1-2 fallback servers (0 = must be rejected), each any/udp/tcp with its own timeout; healthcheck on/off with interval, timeout, backoff_duration and domain_template all different from each other and from the server timeouts) -> parseConfig, validate, toInternal, forward.NewHandler as in builder.initDNS, against one scripted loopback server per configured address; scenario: mains up or closed at construction, queries, mains closed / reopened, health-check rounds as the refresh worker would run them; oracle: every setting arrives at the handler configuration unchanged, and each query is answered by a server its configured role allows (recorded by the servers); non-trivial = some query is answered by a fallback server, distinct by configuration and scenario",
		"fallback-answered-through-config", "main-answered-through-config", "settings-all-distinct", "healthcheck-enabled", "healthcheck-disabled",
		"main-down-at-construction", "all-mains-out-then-fallback", "probe-domain-from-template")
	st.Finish(t)

	dir := t.TempDir()
	logger := slogutil.NewDiscardLogger()
	caseNo := 0

	rapid.Check(t, func(t *rapid.T) {
		caseStart := time.Now()
		caseNo++

		nMain := rapid.IntRange(1, 2).Draw(t, "mains")
		nFb := rapid.SampledFrom([]int{1, 1, 2, 2, 2, 0}).Draw(t, "fallbacks")
		enabled := rapid.IntRange(0, 3).Draw(t, "healthcheck") != 0

		// All durations of one configuration are different, so that a value
		// taken from a neighbouring field shows.
		short := rapid.Permutation([]time.Duration{2 * time.Second, 3 * time.Second, 4 * time.Second, 5 * time.Second, 6 * time.Second, 7 * time.Second}).Draw(t, "serverTimeouts")
		long := rapid.Permutation([]time.Duration{31 * time.Second, 47 * time.Second, 59 * time.Second, 73 * time.Second, 2 * time.Minute}).Draw(t, "healthcheckDurations")
		hcInterval, hcTimeout, hcBackoff := long[0], long[1], long[2]
		label := rapid.SampledFrom([]string{"alpha", "bravo", "charlie"}).Draw(t, "templateLabel")
		tmpl := "${RANDOM}." + label + ".hc.verif.test"

		var all []*vc17cServerConf
		defer func() {
			for _, c := range all {
				c.srv.close()
			}
		}()

		mk := func(name string, i int) *vc17cServerConf {
			c := &vc17cServerConf{
				srv:     &vc17cSrv{name: name},
				scheme:  rapid.SampledFrom([]string{"", "", "udp://", "tcp://"}).Draw(t, name+"Scheme"),
				timeout: short[i],
			}
			all = append(all, c)
			if err := c.srv.start(); err != nil {
				st.Class("bind-failed-discarded")
				t.Skipf("binding loopback sockets: %v", err)
			}

			return c
		}

		var mains, fbs []*vc17cServerConf
		for i := range nMain {
			mains = append(mains, mk(fmt.Sprintf("main%d", i), i))
		}

		for i := range nFb {
			fbs = append(fbs, mk(fmt.Sprintf("fb%d", i), nMain+i))
		}

		// The configuration file.
		var y strings.Builder
		list := func(indent string, cs []*vc17cServerConf) {
			if len(cs) == 0 {
				y.WriteString(" []\n")

				return
			}

			y.WriteString("\n")
			for _, c := range cs {
				fmt.Fprintf(&y, "%s- address: '%s%s'\n%s  timeout: %s\n", indent, c.scheme, c.srv.addr(), indent, c.timeout)
			}
		}

		y.WriteString("upstream:\n  servers:")
		list("    ", mains)
		y.WriteString("  fallback:\n    servers:")
		list("      ", fbs)
		fmt.Fprintf(&y, "  healthcheck:\n    enabled: %v\n    interval: %s\n    timeout: %s\n    backoff_duration: %s\n    domain_template: '%s'\n",
			enabled, hcInterval, hcTimeout, hcBackoff, tmpl)

		var hist strings.Builder
		hist.WriteString(y.String())
		describe := func() string { return hist.String() }

		// Initial states, before the handler exists (it may probe at once).
		for _, c := range all {
			if rapid.IntRange(0, 2).Draw(t, c.srv.name+"InitiallyDown") == 0 {
				c.srv.close()
			}

			fmt.Fprintf(&hist, "%s up=%v; ", c.srv.name, c.srv.up)
		}

		hist.WriteString("\n")

		path := filepath.Join(dir, fmt.Sprintf("c%d.yaml", caseNo))
		if err := os.WriteFile(path, []byte(y.String()), 0o600); err != nil {
			t.Fatalf("harness: %v", err)
		}
		defer func() { _ = os.Remove(path) }()

		conf, err := parseConfig(path)
		if err != nil || conf.Upstream == nil {
			t.Fatalf("the generated upstream section was not parsed: %v\n%s", err, describe())
		}

		err = conf.Upstream.validate()
		if nFb == 0 {
			// doc/configuration.md lists fallback servers as part of the
			// section; the validator refuses an empty list.  Not a verdict of
			// this property either way: without fallbacks there is nothing to
			// fail over to.
			if err != nil {
				st.Case("", "no-fallbacks-rejected-by-validation")

				return
			}
		} else if err != nil {
			t.Fatalf("a valid upstream section was rejected: %v\n%s", err, describe())
		}

		// As builder.initDNS does.  The metrics listener registers with the
		// default registerer; give every case its own.
		oldReg := prometheus.DefaultRegisterer
		prometheus.DefaultRegisterer = prometheus.NewRegistry()
		fwdConf := conf.Upstream.toInternal(logger)
		prometheus.DefaultRegisterer = oldReg

		// Every setting arrives unchanged.
		checkList := func(what string, got []*forward.UpstreamPlainConfig, want []*vc17cServerConf) {
			if len(got) != len(want) {
				t.Fatalf("%s: %d servers configured, %d handed to the handler\n%s", what, len(want), len(got), describe())
			}

			for i, w := range want {
				g := got[i]
				if g.Address != w.srv.addr() || g.Network != w.network() || g.Timeout != w.timeout {
					t.Fatalf("%s[%d]: configured %s%s timeout %s, handed to the handler %q %s timeout %s\n%s",
						what, i, w.scheme, w.srv.addr(), w.timeout, g.Network, g.Address, g.Timeout, describe())
				}
			}
		}

		// VERIF_C17_BEHAVIOUR_ONLY (sensitivity runs only) leaves the verdict
		// to the servers' records alone.
		if os.Getenv("VERIF_C17_BEHAVIOUR_ONLY") == "" {
			checkList("upstream.servers", fwdConf.UpstreamsAddresses, mains)
			checkList("upstream.fallback.servers", fwdConf.FallbackAddresses, fbs)
		}

		wantInit := time.Duration(0)
		if enabled {
			wantInit = hcTimeout
		}

		if fwdConf.HealthcheckDomainTmpl != tmpl || fwdConf.HealthcheckBackoffDuration != hcBackoff || fwdConf.HealthcheckInitDuration != wantInit {
			t.Fatalf("healthcheck: configured template %q backoff %s timeout %s (enabled %v), handed to the handler template %q backoff %s initial-check timeout %s\n%s",
				tmpl, hcBackoff, hcTimeout, enabled, fwdConf.HealthcheckDomainTmpl, fwdConf.HealthcheckBackoffDuration, fwdConf.HealthcheckInitDuration, describe())
		}

		classes := map[string]struct{}{"settings-all-distinct": {}}
		if enabled {
			classes["healthcheck-enabled"] = struct{}{}
		} else {
			classes["healthcheck-disabled"] = struct{}{}
		}

		// Reference: which mains are in rotation.  Without a clock seam in
		// this package a main that failed a probe stays out for the rest of
		// the (short) case: every backoff is at least 31 s.
		active := make([]bool, nMain)
		for i := range active {
			active[i] = true
		}

		probeRound := func() {
			if nFb == 0 {
				return
			}

			for i, m := range mains {
				if active[i] && !m.srv.up {
					active[i] = false
				}
			}
		}

		for _, m := range mains {
			if !m.srv.up {
				classes["main-down-at-construction"] = struct{}{}
			}
		}

		h := forward.NewHandler(fwdConf)
		defer func() { _ = h.Close() }()
		if enabled {
			probeRound()
		}

		inconclusive := func(msg string) bool {
			if time.Since(caseStart) > vc17cCaseBudget {
				fmt.Println("VERIF-INCONCLUSIVE: the case took " + time.Since(caseStart).String() + "; " + msg)

				return true
			}

			return false
		}

		fail := func(format string, args ...any) {
			msg := fmt.Sprintf(format, args...) + "\n" + describe()
			inconclusive(msg)
			t.Fatalf("%s", msg)
		}

		query := func() {
			before := map[string]int{}
			for _, c := range all {
				before[c.srv.name], _ = c.srv.counts()
			}

			name := rapid.SampledFrom([]string{"example.org.", "WwW.Example.ORG.", "a."}).Draw(t, "qname")
			req := (&dns.Msg{}).SetQuestion(name, dns.TypeA)
			req.Id = rapid.Uint16().Draw(t, "id")
			rw := &vc17cRW{}
			ctx, cancel := context.WithTimeout(context.Background(), 10*time.Second)
			qerr := h.ServeDNS(ctx, rw, req)
			cancel()

			got := map[string]int{}
			var asked []string
			for _, c := range all {
				n, _ := c.srv.counts()
				if d := n - before[c.srv.name]; d > 0 {
					got[c.srv.name] = d
					asked = append(asked, fmt.Sprintf("%s x%d", c.srv.name, d))
				}
			}

			from := ""
			if len(rw.msgs) == 1 {
				from = vc17cTagOf(rw.msgs[0])
			}

			fmt.Fprintf(&hist, "Q -> answered by %q, err=%v, servers that received it: %v; ", from, qerr, asked)

			if len(rw.msgs) > 1 || (qerr == nil) != (len(rw.msgs) == 1) {
				fail("query: %d responses written, err=%v", len(rw.msgs), qerr)
			}

			if qerr == nil {
				resp := rw.msgs[0]
				if resp.Id != req.Id || len(resp.Question) != 1 || !strings.EqualFold(resp.Question[0].Name, name) {
					fail("query: the reply does not match the query")
				}
			}

			// The outcomes the configuration allows.
			nActive := 0
			for _, a := range active {
				if a {
					nActive++
				}
			}

			viaFallback := func(ok map[string]bool) {
				if nFb == 0 {
					ok["<error>"] = true
				}

				for _, f := range fbs {
					if f.srv.up {
						ok[f.srv.name] = true
					} else {
						ok["<error>"] = true
					}
				}
			}

			ok := map[string]bool{}
			if nActive == 0 {
				viaFallback(ok)
			}

			for i, m := range mains {
				switch {
				case !active[i]:
				case m.srv.up:
					ok[m.srv.name] = true
				default:
					viaFallback(ok)
				}
			}

			outcome := from
			if qerr != nil {
				outcome = "<error>"
			}

			if !ok[outcome] {
				fail("query: outcome %q is not among those the configured roles allow (%v); mains in rotation: %v", outcome, ok, active)
			}

			// Who may have received the query at all.
			for i, m := range mains {
				if n := got[m.srv.name]; n > 0 && (!active[i] || outcome != m.srv.name) {
					fail("query: main server %s received the query (%d times) but is out of rotation or did not answer it", m.srv.name, n)
				}
			}

			for _, f := range fbs {
				if n := got[f.srv.name]; n > 0 && outcome != f.srv.name {
					fail("query: fallback server %s received the query (%d times) but the client got %q", f.srv.name, n, outcome)
				}
			}

			if qerr == nil && got[from] != 1 {
				fail("query: the answering server %s recorded %d requests for one query", from, got[from])
			}

			switch {
			case qerr != nil:
			case strings.HasPrefix(from, "fb"):
				classes["fallback-answered-through-config"] = struct{}{}
				if nActive == 0 {
					classes["all-mains-out-then-fallback"] = struct{}{}
				}
			default:
				classes["main-answered-through-config"] = struct{}{}
			}
		}

		refresh := func() {
			if !enabled {
				// The service runs no refresh worker then.
				return
			}

			hist.WriteString("R; ")
			// As the refresh worker: a context with the healthcheck timeout.
			ctx, cancel := newCtxWithTimeoutCons(conf.Upstream.Healthcheck.Timeout.Duration)()
			_ = h.Refresh(ctx)
			cancel()
			probeRound()
		}

		setUp := func(c *vc17cServerConf, up bool) bool {
			fmt.Fprintf(&hist, "%s up=%v; ", c.srv.name, up)
			if !up {
				c.srv.close()

				return true
			}

			if err := c.srv.open(); err != nil {
				st.Class("rebind-failed-discarded")

				return false
			}

			return true
		}

		query()
		nOps := rapid.IntRange(2, 8).Draw(t, "nOps")
	ops:
		for range nOps {
			switch rapid.IntRange(0, 6).Draw(t, "op") {
			case 0, 1:
				query()
			case 2:
				refresh()
			case 3:
				c := rapid.SampledFrom(all).Draw(t, "switch")
				if !setUp(c, rapid.Bool().Draw(t, "up")) {
					break ops
				}
			case 4, 5:
				// The scenario of the property: all mains go down, queries
				// are answered by a fallback server; a health-check round;
				// again; the mains come back.
				for _, m := range mains {
					setUp(m, false)
				}

				if rapid.Bool().Draw(t, "fallbacksUp") {
					for _, f := range fbs {
						if !setUp(f, true) {
							break ops
						}
					}
				}

				query()
				refresh()
				query()
				for _, m := range mains {
					if !setUp(m, true) {
						break ops
					}
				}

				query()
			case 6:
				for _, m := range mains {
					if !setUp(m, true) {
						break ops
					}
				}

				query()
			}
		}

		// The probes went to the domain built from the configured template.
		for _, c := range all {
			_, probes := c.srv.counts()
			for _, p := range probes {
				classes["probe-domain-from-template"] = struct{}{}
				if !strings.HasSuffix(strings.ToLower(p), "."+label+".hc.verif.test.") || strings.Contains(p, "${RANDOM}") {
					fail("a health-check probe asked %q, which is not built from the configured template %q", p, tmpl)
				}

				if !strings.HasPrefix(c.srv.name, "main") {
					// Not decided by the statement; counted.
					classes["fallback-server-probed"] = struct{}{}
				}
			}
		}

		if time.Since(caseStart) > vc17cCaseBudget {
			st.Class("slow-case-discarded")
			t.Skip("case outlived its budget")
		}

		_, viaFb := classes["fallback-answered-through-config"]
		nt := ""
		if viaFb {
			nt = hist.String()
		}

		cls := make([]string, 0, len(classes))
		for c := range classes {
			cls = append(cls, c)
		}

		st.Case(nt, cls...)
		if viaFb && st.WantSample() {
			st.Sample(hist.String())
		}
	})
}
