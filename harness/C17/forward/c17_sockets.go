//go:build verif

package forward

// C17, parts "accept" and "sockets": real UpstreamPlain clients against
// scripted loopback UDP/TCP servers.

import (
	"cmp"
	"context"
	"encoding/binary"
	"fmt"
	"io"
	"net"
	"net/netip"
	"os"
	"runtime"
	"strings"
	"sync"
	"sync/atomic"
	"testing"
	"time"
	"unicode"

	"github.com/miekg/dns"
	"pgregory.net/rapid"
	"verif.local/harness/vstat"
)

// vc17LoopIP is a loopback address that is specific to this process, so that
// a port that is closed on purpose ("upstream down") is not answered by a
// socket of some other test process on 127.0.0.1.
func vc17LoopIP() netip.Addr {
	pid := os.Getpid()

	return netip.AddrFrom4([4]byte{127, 17, byte(pid >> 8), byte(pid)})
}

// vc17ReplyFunc decides what a server sends back for one request.  resp nil
// means no reply; closeConn closes a TCP connection after the (optional)
// reply.
type vc17ReplyFunc func(network string, req []byte) (resp []byte, closeConn bool)

// vc17Out is a scripted reply that may consist of several messages (UDP: one
// datagram each; TCP: framed and written one after the other).  split > 0
// makes the TCP bytes go out in two writes, cut at that offset.
type vc17Out struct {
	msgs      [][]byte
	split     int
	closeConn bool
}

// vc17ReplyNFunc is the multi-message form of vc17ReplyFunc; if set it takes
// precedence.
type vc17ReplyNFunc func(network string, req []byte) vc17Out

// vc17Srv is a scripted DNS server on one UDP and one TCP socket with the same
// port.
type vc17Srv struct {
	ip   netip.Addr
	port uint16

	mu      sync.Mutex
	reply   vc17ReplyFunc
	replyN  vc17ReplyNFunc
	udpSeen int
	tcpSeen int
	conns   map[net.Conn]struct{}

	// pairing makes a TCP request wait (briefly) for a second one, so that
	// simultaneous queries really overlap and use separate connections.
	pairing bool
	pairCh  chan struct{}

	// craftErr is set when a scripted reply could not be built: harness error.
	craftErr error

	up    bool
	tcpUp bool
	udp   *net.UDPConn
	tcp   *net.TCPListener
	wg    sync.WaitGroup
	tcpWg sync.WaitGroup
}

func (s *vc17Srv) addr() netip.AddrPort { return netip.AddrPortFrom(s.ip, s.port) }

// start binds a fresh port.
func (s *vc17Srv) start() (err error) {
	s.ip = vc17LoopIP()
	for range 20 {
		var l *net.TCPListener
		l, err = net.ListenTCP("tcp4", net.TCPAddrFromAddrPort(netip.AddrPortFrom(s.ip, 0)))
		if err != nil {
			return err
		}

		s.port = l.Addr().(*net.TCPAddr).AddrPort().Port()
		_ = l.Close()
		if err = s.open(); err == nil {
			return nil
		}
	}

	return err
}

// open binds both sockets on the server's port and starts serving.
func (s *vc17Srv) open() (err error) {
	s.tcp, err = net.ListenTCP("tcp4", net.TCPAddrFromAddrPort(s.addr()))
	if err != nil {
		return err
	}

	s.udp, err = net.ListenUDP("udp4", net.UDPAddrFromAddrPort(s.addr()))
	if err != nil {
		_ = s.tcp.Close()

		return err
	}

	s.mu.Lock()
	s.conns = map[net.Conn]struct{}{}
	s.mu.Unlock()
	s.up, s.tcpUp = true, true

	udp, tcp := s.udp, s.tcp
	s.wg.Add(1)
	s.tcpWg.Add(1)
	go s.serveUDP(udp)
	go s.serveTCP(tcp)

	return nil
}

// closeTCP closes the TCP side only: the listener and every accepted
// connection.  The UDP socket keeps answering.
func (s *vc17Srv) closeTCP() {
	if !s.up || !s.tcpUp {
		return
	}

	s.tcpUp = false
	_ = s.tcp.Close()
	s.mu.Lock()
	for c := range s.conns {
		_ = c.Close()
	}
	s.mu.Unlock()
	s.tcpWg.Wait()
}

// openTCP undoes closeTCP.
func (s *vc17Srv) openTCP() (err error) {
	if !s.up || s.tcpUp {
		return nil
	}

	s.tcp, err = net.ListenTCP("tcp4", net.TCPAddrFromAddrPort(s.addr()))
	if err != nil {
		return err
	}

	s.tcpUp = true
	s.tcpWg.Add(1)
	go s.serveTCP(s.tcp)

	return nil
}

// close closes both sockets and every accepted connection, and waits for the
// serving goroutines.
func (s *vc17Srv) close() {
	if !s.up {
		return
	}

	s.closeTCP()
	s.up = false
	_ = s.udp.Close()
	s.wg.Wait()
}

func (s *vc17Srv) setReply(f vc17ReplyFunc) {
	s.mu.Lock()
	defer s.mu.Unlock()

	s.reply = f
}

func (s *vc17Srv) setReplyN(f vc17ReplyNFunc) {
	s.mu.Lock()
	defer s.mu.Unlock()

	s.replyN = f
}

func (s *vc17Srv) seen() (udp, tcp int) {
	s.mu.Lock()
	defer s.mu.Unlock()

	return s.udpSeen, s.tcpSeen
}

func (s *vc17Srv) resetSeen() {
	s.mu.Lock()
	defer s.mu.Unlock()

	s.udpSeen, s.tcpSeen = 0, 0
}

func (s *vc17Srv) serveUDP(c *net.UDPConn) {
	defer s.wg.Done()

	buf := make([]byte, 65535)
	for {
		n, from, err := c.ReadFromUDPAddrPort(buf)
		if err != nil {
			return
		}

		s.mu.Lock()
		s.udpSeen++
		f, fn := s.reply, s.replyN
		s.mu.Unlock()

		req := append([]byte(nil), buf[:n]...)
		if fn != nil {
			for _, m := range fn("udp", req).msgs {
				_, _ = c.WriteToUDPAddrPort(m, from)
			}

			continue
		}

		resp, _ := f("udp", req)
		if resp != nil {
			_, _ = c.WriteToUDPAddrPort(resp, from)
		}
	}
}

func (s *vc17Srv) serveTCP(l *net.TCPListener) {
	defer s.tcpWg.Done()

	for {
		c, err := l.Accept()
		if err != nil {
			return
		}

		s.mu.Lock()
		s.conns[c] = struct{}{}
		s.mu.Unlock()

		s.tcpWg.Add(1)
		go s.serveTCPConn(c)
	}
}

// vc17PairWait bounds how long a request waits for a simultaneous one.  It
// only affects how often connections overlap, never a verdict.
const vc17PairWait = 10 * time.Millisecond

func (s *vc17Srv) setPairing(on bool) {
	s.mu.Lock()
	defer s.mu.Unlock()

	s.pairing = on
}

func (s *vc17Srv) pairWait() {
	s.mu.Lock()
	if !s.pairing {
		s.mu.Unlock()

		return
	}

	if ch := s.pairCh; ch != nil {
		s.pairCh = nil
		close(ch)
		s.mu.Unlock()

		return
	}

	ch := make(chan struct{})
	s.pairCh = ch
	s.mu.Unlock()

	select {
	case <-ch:
	case <-time.After(vc17PairWait):
		s.mu.Lock()
		if s.pairCh == ch {
			s.pairCh = nil
		}
		s.mu.Unlock()
	}
}

// dropConns closes every established TCP connection but keeps listening, and
// waits until their goroutines are gone.
func (s *vc17Srv) dropConns() {
	s.mu.Lock()
	for c := range s.conns {
		_ = c.Close()
	}
	s.mu.Unlock()

	for {
		s.mu.Lock()
		n := len(s.conns)
		s.mu.Unlock()
		if n == 0 {
			return
		}

		runtime.Gosched()
	}
}

func (s *vc17Srv) serveTCPConn(c net.Conn) {
	defer s.tcpWg.Done()
	defer func() {
		_ = c.Close()
		s.mu.Lock()
		delete(s.conns, c)
		s.mu.Unlock()
	}()

	for {
		var l uint16
		if binary.Read(c, binary.BigEndian, &l) != nil {
			return
		}

		req := make([]byte, l)
		if _, err := io.ReadFull(c, req); err != nil {
			return
		}

		s.pairWait()

		s.mu.Lock()
		s.tcpSeen++
		f, fn := s.reply, s.replyN
		s.mu.Unlock()

		if fn != nil {
			o := fn("tcp", req)
			var out []byte
			for _, m := range o.msgs {
				out = binary.BigEndian.AppendUint16(out, uint16(len(m)))
				out = append(out, m...)
			}

			if o.split > 0 && o.split < len(out) {
				if _, err := c.Write(out[:o.split]); err != nil {
					return
				}

				// Let the first part travel on its own.
				time.Sleep(time.Millisecond)
				out = out[o.split:]
			}

			if len(out) > 0 {
				if _, err := c.Write(out); err != nil {
					return
				}
			}

			if o.closeConn {
				return
			}

			continue
		}

		resp, closeConn := f("tcp", req)
		if resp != nil {
			out := make([]byte, 2+len(resp))
			binary.BigEndian.PutUint16(out, uint16(len(resp)))
			copy(out[2:], resp)
			if _, err := c.Write(out); err != nil {
				return
			}
		}

		if closeConn {
			return
		}
	}
}

// ---------------------------------------------------------------------------
// reply acceptance

// vc17Spec is a scripted reply.
type vc17Spec struct {
	Kind    string `json:"kind"`
	TC      bool   `json:"tc,omitempty"`
	Rcode   int    `json:"rcode,omitempty"`
	IDMask  uint16 `json:"id_mask,omitempty"`
	AltName string `json:"alt_name,omitempty"`
	AltType uint16 `json:"alt_type,omitempty"`
	Garbage []byte `json:"garbage,omitempty"`
	Cut     int    `json:"cut,omitempty"`
	// Bare: no records at all (no answer, no responder tag); the sender is
	// then marked by the AA bit (set by UDP, clear by TCP).
	Bare bool `json:"bare,omitempty"`
	// OPT: a bare reply still echoes an OPT record if the query had one.
	OPT bool `json:"opt,omitempty"`
}

// valid reports whether the reply matches the query in ID, question name
// (case-insensitively) and question type.
func (s vc17Spec) valid() bool { return s.Kind == "exact" || s.Kind == "case" }

// structured reports whether the reply is a complete, well-formed message, so
// that its verdict is exactly determined.
func (s vc17Spec) structured() bool { return s.Kind != "garbage" }

func vc17FlipCase(s string) string {
	return strings.Map(func(r rune) rune {
		switch {
		case unicode.IsLower(r):
			return unicode.ToUpper(r)
		case unicode.IsUpper(r):
			return unicode.ToLower(r)
		default:
			return r
		}
	}, s)
}

// vc17Craft builds the bytes of the scripted reply to req.  who is put into
// the reply so that the accepted message can be traced to its sender.
func vc17Craft(s vc17Spec, reqBytes []byte, who string) (out []byte, closeConn bool) {
	out, closeConn, _ = vc17CraftErr(s, reqBytes, who)

	return out, closeConn
}

// vc17CraftErr is vc17Craft that also reports a reply that could not be built
// (a harness error, never a verdict).
func vc17CraftErr(s vc17Spec, reqBytes []byte, who string) (out []byte, closeConn bool, err error) {
	req := &dns.Msg{}
	if err = req.Unpack(reqBytes); err != nil || len(req.Question) != 1 {
		return nil, true, fmt.Errorf("server got a malformed request: %v", err)
	}

	q := req.Question[0]
	r := (&dns.Msg{}).SetRcode(req, s.Rcode)
	r.Truncated = s.TC
	switch {
	case s.Bare:
		r.Authoritative = who == "udp"
		if s.OPT && req.IsEdns0() != nil {
			r.SetEdns0(1232, false)
		}
	default:
		if !s.TC && s.Rcode == dns.RcodeSuccess && q.Qtype == dns.TypeA {
			r.Answer = append(r.Answer, &dns.A{
				Hdr: dns.RR_Header{Name: q.Name, Rrtype: dns.TypeA, Class: dns.ClassINET, Ttl: 10},
				A:   []byte{192, 0, 2, 7},
			})
		}

		vc17Tag(r, who)
	}

	switch s.Kind {
	case "exact":
	case "case":
		r.Question[0].Name = vc17FlipCase(q.Name)
	case "wrongid":
		r.Id = req.Id ^ s.IDMask
	case "othername":
		r.Question[0].Name = s.AltName
	case "othertype":
		r.Question[0].Qtype = s.AltType
	case "twoq":
		r.Question = append(r.Question, r.Question[0])
	case "zeroq":
		r.Question = nil
	case "garbage":
		g := append([]byte(nil), s.Garbage...)
		if s.IDMask == 0 {
			binary.BigEndian.PutUint16(g, req.Id)
		}

		return g, false, nil
	case "short":
		b, perr := r.Pack()
		if perr != nil {
			return nil, true, perr
		}

		return b[:min(s.Cut, len(b))], false, nil
	case "close":
		return nil, true, nil
	}

	b, err := r.Pack()
	if err != nil {
		return nil, true, err
	}

	return b, false, nil
}

var vc17AcceptNames = []string{"example.org.", "WwW.Example.ORG.", "a.B.c.verif.test.", "x.", ".", ".", "a.", "Z."}

func vc17DrawSpec(t *rapid.T, label string, name string, qtype uint16, tcp bool) (s vc17Spec) {
	kinds := []string{"exact", "exact", "exact", "case", "wrongid", "othername", "othertype", "twoq", "zeroq", "garbage", "short"}
	if tcp {
		kinds = append(kinds, "close")
	}

	s.Kind = rapid.SampledFrom(kinds).Draw(t, label+"Kind")
	s.TC = rapid.IntRange(0, 3).Draw(t, label+"TC") == 0
	if rapid.IntRange(0, 3).Draw(t, label+"RcodeKind") == 0 {
		s.Rcode = rapid.SampledFrom([]int{dns.RcodeServerFailure, dns.RcodeNameError, dns.RcodeRefused}).Draw(t, label+"Rcode")
	}

	if s.Bare = rapid.Bool().Draw(t, label+"Bare"); s.Bare {
		// Replies without any record, with every header rcode: the smallest
		// messages an upstream can send (17 octets for the root name).
		s.Rcode = rapid.IntRange(0, 15).Draw(t, label+"BareRcode")
		s.OPT = rapid.Bool().Draw(t, label+"OPT")
	}

	switch s.Kind {
	case "wrongid":
		s.IDMask = rapid.OneOf(rapid.SampledFrom([]uint16{1, 0x8000, 0x00ff, 0xff00, 0xffff}), rapid.Uint16Range(1, 0xffff)).Draw(t, label+"IDMask")
	case "othername":
		// A name of the same length differing in one non-case bit, a
		// parent, a child, or an unrelated name.
		alts := []string{"other.example.", ".", "a."}
		if name != "." {
			b := []byte(name)
			b[0] ^= 0x01
			alts = append(alts, string(b), "sub."+name)
		}

		s.AltName = rapid.SampledFrom(alts).Draw(t, label+"AltName")
		if strings.EqualFold(s.AltName, name) {
			s.AltName = "other.example."
		}
	case "othertype":
		s.AltType = rapid.SampledFrom([]uint16{dns.TypeA, dns.TypeAAAA, dns.TypeTXT, dns.TypeCNAME, dns.TypeANY, qtype ^ 0x100}).Draw(t, label+"AltType")
		if s.AltType == qtype {
			s.AltType = qtype + 1
		}
	case "garbage":
		s.Garbage = rapid.SliceOfN(rapid.Byte(), vc17MinMsg, 120).Draw(t, label+"Garbage")
		s.IDMask = uint16(rapid.IntRange(0, 1).Draw(t, label+"GarbageKeepsOwnID"))
	case "short":
		s.Cut = rapid.IntRange(0, vc17MinMsg-1).Draw(t, label+"Cut")
	}

	return s
}

// vc17Matches is the acceptance predicate of the property.
func vc17Matches(req, resp *dns.Msg) bool {
	return resp != nil && resp.Id == req.Id && len(resp.Question) == 1 &&
		strings.EqualFold(resp.Question[0].Name, req.Question[0].Name) &&
		resp.Question[0].Qtype == req.Question[0].Qtype
}

// vc17Timeout is the exchange timeout of the real clients.  Nothing in the
// checks waits for it on purpose; an operation that comes close to it makes a
// failing verdict inconclusive.
const vc17Timeout = 5 * time.Second

func TestVerifC17Accept(t *testing.T) {
	st := vstat.New("C17", "forward.accept",
		"rapid (query name incl. the root and one-letter names / type / ID / EDNS or not, upstream network any/udp/tcp, one scripted UDP reply and one scripted TCP reply from {exact, case-only name difference, wrong ID, other name, other type, 2 questions, 0 questions, garbage, short, close} x TC x rcode x {with records, without any record and every header rcode, with or without OPT}) through a real UpstreamPlain against loopback servers; non-trivial = at least one consulted reply is not the exact one, distinct by (network, both replies)",
		"udp-valid-accepted", "udp-case-only-accepted", "udp-wrongid-rejected", "udp-othername-rejected", "udp-othertype-rejected",
		"udp-twoq-rejected", "tc-then-tcp-valid", "tc-then-tcp-invalid", "tcp-wrongid-rejected", "tcp-othername-rejected",
		"tcp-othertype-rejected", "garbage-not-accepted", "reply-of-minimal-size-accepted",
		"reply-of-minimal-size-accepted-over-udp", "reply-of-minimal-size-accepted-over-tcp")
	st.Finish(t)

	rapid.Check(t, func(t *rapid.T) {
		name := rapid.SampledFrom(vc17AcceptNames).Draw(t, "name")
		qtype := rapid.SampledFrom(vc17QTypes).Draw(t, "qtype")
		id := rapid.Uint16().Draw(t, "id")
		nw := rapid.SampledFrom([]Network{NetworkAny, NetworkAny, NetworkAny, NetworkTCP, NetworkUDP}).Draw(t, "network")
		us := vc17DrawSpec(t, "udp", name, qtype, false)
		cs := vc17DrawSpec(t, "tcp", name, qtype, true)

		srv := &vc17Srv{}
		if err := srv.start(); err != nil {
			st.Class("bind-failed-discarded")
			t.Skipf("binding loopback sockets: %v", err)
		}
		defer srv.close()

		var sentMu sync.Mutex
		sentLen := map[string]int{}
		var craftErr error
		srv.setReply(func(network string, req []byte) ([]byte, bool) {
			spec := us
			if network == "tcp" {
				spec = cs
			}

			out, closeConn, err := vc17CraftErr(spec, req, network)
			sentMu.Lock()
			defer sentMu.Unlock()

			sentLen[network] = len(out)
			if err != nil {
				craftErr = err
			}

			return out, closeConn
		})

		u := NewUpstreamPlain(&UpstreamPlainConfig{Network: nw, Address: srv.addr(), Timeout: vc17Timeout})
		defer func() { _ = u.Close() }()

		req := &dns.Msg{
			MsgHdr:   dns.MsgHdr{Id: id, RecursionDesired: true},
			Question: []dns.Question{{Name: name, Qtype: qtype, Qclass: dns.ClassINET}},
		}
		edns := rapid.Bool().Draw(t, "edns")
		if edns {
			req.SetEdns0(rapid.SampledFrom([]uint16{512, 1232, 4096}).Draw(t, "udpSize"), rapid.Bool().Draw(t, "do"))
		}

		start := time.Now()
		resp, _, err := u.Exchange(context.Background(), req)
		took := time.Since(start)
		udpSeen, tcpSeen := srv.seen()

		sentMu.Lock()
		cerr, udpLen, tcpLen := craftErr, sentLen["udp"], sentLen["tcp"]
		sentMu.Unlock()
		if cerr != nil {
			fmt.Println("VERIF-INCONCLUSIVE: harness could not build a scripted reply: " + cerr.Error())
			t.Fatalf("harness: %v (udp %+v tcp %+v name %q)", cerr, us, cs, name)
		}

		fail := func(format string, args ...any) {
			msg := fmt.Sprintf(format, args...)
			full := fmt.Sprintf("%s\nquery %q type %d id %d edns %v network %q; udp reply %+v (%d octets); tcp reply %+v (%d octets); err=%v; accepted from %q; udp requests %d, tcp requests %d",
				msg, name, qtype, id, edns, nw, us, udpLen, cs, tcpLen, err, vc17SenderOf(resp), udpSeen, tcpSeen)
			if took > vc17Timeout/2 {
				fmt.Println("VERIF-INCONCLUSIVE: an exchange took " + took.String() + "; " + full)
			}

			t.Fatalf("%s", full)
		}

		// Accepted only if ID, question name and type match.
		if err == nil && !vc17Matches(req, resp) {
			fail("a reply that does not match the query was accepted: %v", resp)
		}

		from := ""
		if err == nil {
			from = vc17SenderOf(resp)
			if from == "udp" && !us.valid() || from == "tcp" && !cs.valid() {
				fail("the %s reply is not valid for the query but was accepted", from)
			}
		}

		accept := func(which string) {
			if err != nil || from != which {
				fail("the %s reply is valid for the query and decides, but was not what the exchange returned", which)
			}
		}

		reject := func() {
			if err == nil {
				fail("no valid reply decides but the exchange succeeded")
			}
		}

		// viaTCP is the outcome when the TCP reply decides.
		viaTCP := func() {
			if cs.valid() {
				accept("tcp")
			} else {
				reject()
			}
		}

		// lenient: the statement does not say whether TCP is tried after a bad
		// UDP reply; it only must not be accepted.
		lenient := func() {
			if err == nil && !(from == "tcp" && cs.valid()) {
				fail("an invalid UDP reply led to an accepted message that is not a valid TCP reply")
			}
		}

		var classes []string
		switch {
		case nw == NetworkTCP:
			viaTCP()
			if cs.structured() {
				classes = append(classes, "tcp-"+cs.Kind+vc17Verdict(cs))
			}
		case us.valid() && !us.TC:
			accept("udp")
			if tcpSeen != 0 {
				// Not decided by the statement.
				classes = append(classes, "udp-valid-but-tcp-used-too")
			}

			classes = append(classes, "udp-valid-accepted")
			if us.Kind == "case" {
				classes = append(classes, "udp-case-only-accepted")
			}
		case us.valid() && us.TC && nw == NetworkAny:
			// Truncated: the query is retried over TCP; a valid TCP reply
			// decides.  Without one, the statement allows a failure as well as
			// the (matching) truncated reply.
			if cs.valid() {
				accept("tcp")
			} else if err == nil && from != "udp" {
				fail("neither a failure nor the truncated UDP reply after an invalid TCP reply")
			}

			if cs.valid() {
				classes = append(classes, "tc-then-tcp-valid")
			} else {
				classes = append(classes, "tc-then-tcp-invalid")
			}

			if cs.structured() {
				classes = append(classes, "tcp-"+cs.Kind+vc17Verdict(cs))
			}
		case us.valid() && us.TC:
			// UDP-only upstream: either the truncated reply or a valid TCP one.
			if err != nil || !(from == "udp" || from == "tcp" && cs.valid()) {
				fail("UDP-only upstream with a valid truncated reply: neither that nor a valid TCP reply was returned")
			}

			classes = append(classes, "udp-only-tc")
		default:
			lenient()
			if us.structured() {
				classes = append(classes, "udp-"+us.Kind+"-rejected")
			}

			if err == nil {
				classes = append(classes, "udp-invalid-then-tcp-valid")
			}
		}

		if err == nil {
			n := tcpLen
			if from == "udp" {
				n = udpLen
			}

			switch {
			case n == vc17MinMsg:
				classes = append(classes, "reply-of-minimal-size-accepted", "reply-of-minimal-size-accepted-over-"+from)
			case n <= vc17MinMsg+16:
				classes = append(classes, fmt.Sprintf("reply-of-%d-octets-accepted", n))
			}
		}

		if us.Kind == "garbage" && nw != NetworkTCP || cs.Kind == "garbage" && tcpSeen > 0 {
			classes = append(classes, "garbage-not-accepted")
		}

		nt := ""
		if nw != NetworkTCP && us.Kind != "exact" || tcpSeen > 0 && cs.Kind != "exact" {
			nt = fmt.Sprintf("%s|%+v|%+v", nw, us, cs)
		}

		st.Case(nt, classes...)
		if nt != "" && st.WantSample() {
			st.Sample(map[string]any{"network": string(nw), "udp": us, "tcp": cs, "accepted_from": from, "error": fmt.Sprint(err)})
		}
	})
}

// vc17SenderOf tells which scripted reply a message is: by its responder tag,
// or, for a reply without records, by the AA bit.
func vc17SenderOf(resp *dns.Msg) string {
	if resp == nil {
		return ""
	}

	if tag := vc17TagOf(resp); tag != "" {
		return tag
	}

	if resp.Authoritative {
		return "udp"
	}

	return "tcp"
}

func vc17Verdict(s vc17Spec) string {
	if s.valid() {
		return "-accepted"
	}

	return "-rejected"
}

// ---------------------------------------------------------------------------
// fail-over histories over real sockets

// vc17SockMode is the behaviour of a loopback server behind a real client.
type vc17SockMode int

const (
	vc17SockUp vc17SockMode = iota
	vc17SockServfail
	vc17SockClosed
	vc17SockWrongID
	vc17SockOtherName
	vc17SockOtherType
	// vc17SockStall: the server accepts connections and reads requests but
	// never answers, so every exchange runs into the client's deadline.
	vc17SockStall
	// vc17SockUpTC: up, but every UDP reply is truncated, which sends clients
	// that may use TCP there.
	vc17SockUpTC
	// vc17SockTCNoTCP: every UDP reply is truncated AND the TCP port refuses
	// connections: a network error for clients that retry over TCP, a
	// (truncated) reply for UDP-only clients.
	vc17SockTCNoTCP
	vc17SockModeCount
)

// vc17SockDownLast is the last of the modes 1..n in which a probe fails
// whatever the client's network; vc17SockInitLast is the last of those that
// can be in force before the client exists.
const (
	vc17SockDownLast = vc17SockStall
	vc17SockInitLast = vc17SockOtherType
)

// vc17StallTimeout is the client's exchange timeout while its server stalls.
// The server never answers in that mode, so the value only sets how long the
// inevitable time-out takes.
const vc17StallTimeout = 10 * time.Millisecond

var vc17SockModeNames = [...]string{"up", "servfail", "closed", "wrong-id", "other-name", "other-type", "stall", "up-tc", "tc-no-tcp"}

func (m vc17SockMode) cat() vc17Cat {
	switch m {
	case vc17SockUp, vc17SockUpTC:
		return vc17CatReplyOK
	case vc17SockServfail:
		return vc17CatReplyRcode
	case vc17SockClosed, vc17SockStall, vc17SockTCNoTCP:
		return vc17CatNetErr
	default:
		return vc17CatPlainErr
	}
}

func (m vc17SockMode) spec(network string) vc17Spec {
	switch m {
	case vc17SockUpTC, vc17SockTCNoTCP:
		return vc17Spec{Kind: "exact", TC: network == "udp"}
	case vc17SockServfail:
		return vc17Spec{Kind: "exact", Rcode: dns.RcodeServerFailure}
	case vc17SockWrongID:
		return vc17Spec{Kind: "wrongid", IDMask: 0x0100}
	case vc17SockOtherName:
		return vc17Spec{Kind: "othername", AltName: "other.example."}
	case vc17SockOtherType:
		return vc17Spec{Kind: "othertype", AltType: dns.TypeMX}
	default:
		return vc17Spec{Kind: "exact"}
	}
}

// vc17SockNode is a real UpstreamPlain whose calls are recorded, together with
// the loopback server it talks to.
type vc17SockNode struct {
	*UpstreamPlain

	env  *vc17Env
	srv  *vc17Srv
	name string
	main bool
	idx  int
	mode vc17SockMode
	nw   Network
	// timeout is the configured exchange timeout of the client.
	timeout time.Duration

	// stallTimeout is the client's exchange timeout while the server stalls;
	// zero means vc17StallTimeout.
	stallTimeout time.Duration

	// deadIdle is the number of idle pooled TCP connections of the client
	// that the server has closed.
	deadIdle int
}

// usesTCP reports whether a query to the node ends up on TCP.
func (n *vc17SockNode) usesTCP() bool {
	return n.nw == NetworkTCP || n.nw == NetworkAny && n.mode == vc17SockUpTC
}

// idleTCP is the number of TCP connections the client keeps to the server.
// Outside an exchange all of them sit idle in the client's pool; it is read on
// the server side because the pool does not export it.
func (n *vc17SockNode) idleTCP() int {
	if !n.srv.up {
		return 0
	}

	n.srv.mu.Lock()
	defer n.srv.mu.Unlock()

	return len(n.srv.conns)
}

func (n *vc17SockNode) vc17Name() string { return n.name }
func (n *vc17SockNode) vc17Cat() vc17Cat {
	if n.mode == vc17SockTCNoTCP {
		switch n.nw {
		case NetworkUDP:
			// A UDP-only client never notices the closed TCP port.
			return vc17CatReplyOK
		case NetworkAny:
			return vc17CatTruncOrNetErr
		}
	}

	return n.mode.cat()
}

func (n *vc17SockNode) Exchange(ctx context.Context, req *dns.Msg) (resp *dns.Msg, nw Network, err error) {
	q := req.Question[0]
	n.env.record(vc17Call{who: n.name, main: n.main, idx: n.idx, probe: vc17IsProbeName(q.Name), qname: q.Name, qtype: q.Qtype})

	start := time.Now()
	resp, nw, err = n.UpstreamPlain.Exchange(ctx, req)
	if n.main && vc17IsProbeName(q.Name) {
		n.env.noteProbeEnd(n.idx)
		if n.mode != vc17SockStall && n.mode != vc17SockClosed && !n.env.roundDeadline.IsZero() && time.Since(start) > vc17RoundLoad {
			n.env.roundLoad.Store(true)
		}
	}

	if n.mode != vc17SockStall && time.Since(start) > vc17Timeout/2 {
		// This server answers or refuses immediately; only an overloaded
		// machine makes such an exchange slow.
		n.env.slowHealthy.Store(true)
	}

	return resp, nw, err
}

// setMode switches the server; it returns an error if the port could not be
// bound again.
func (n *vc17SockNode) setMode(m vc17SockMode) (err error) {
	n.mode = m
	if n.UpstreamPlain != nil {
		// The timeout is configuration; it is switched together with the
		// server so that a stalling server costs milliseconds, not seconds.
		n.UpstreamPlain.timeout = n.timeout
		if m == vc17SockStall {
			n.UpstreamPlain.timeout = cmp.Or(n.stallTimeout, vc17StallTimeout)
		}
	}

	if m == vc17SockClosed {
		if n.srv.up {
			n.deadIdle = n.idleTCP()
		}

		n.srv.close()

		return nil
	}

	who := n.name
	n.srv.setReply(func(network string, req []byte) ([]byte, bool) {
		if m == vc17SockStall {
			return nil, false
		}

		return vc17Craft(m.spec(network), req, who)
	})
	if !n.srv.up {
		if err = n.srv.open(); err != nil {
			return err
		}
	}

	if m == vc17SockTCNoTCP {
		n.deadIdle = n.idleTCP()
		n.srv.closeTCP()

		return nil
	}

	return n.srv.openTCP()
}

// dropConns makes the server close its established connections while staying
// up.
func (n *vc17SockNode) dropConns() {
	if !n.srv.up {
		return
	}

	n.deadIdle = n.idleTCP()
	n.srv.dropConns()
}

// vc17SlowOp is how long one operation may take before the code under test
// counts as slow (ten times the deadline of the callers' contexts).  A slow
// operation is never a verdict by itself; its outcome is judged as usual.
const vc17SlowOp = 10 * vc17Timeout

// vc17SlowCode is set, for the rest of the process, once the code under test
// was seen to be slow with upstreams that never answer: later cases then use
// closed servers instead, so that the run ends soon.  vc17SlowCorrect counts
// slow operations whose outcome was right.
var (
	vc17SlowCode    atomic.Bool
	vc17SlowCorrect atomic.Int32
)

func TestVerifC17Sockets(t *testing.T) {
	st := vstat.New("C17", "forward.sockets",
		"rapid histories (1-2 mains, 0-2 fallbacks, each a real UpstreamPlain (any/udp/tcp) built by NewHandler to its own loopback UDP+TCP server; construction with HealthcheckInitDuration 0 or >0 against servers that are already up/down/answering wrongly; ops: query, burst of 2-4 simultaneous queries, health-check round, server drops its established TCP connections but stays up, query with a cancelled or expired context, health-check round with 1-3 queries in flight, server switch among up / up with truncated UDP replies / truncated UDP replies with the TCP port refusing / accepts but never answers / SERVFAIL / sockets closed / wrong-ID / other-name / other-type replies, clock step around the backoff) against the same reference state machine; non-trivial = a health-check round finds a previously failed main up again, distinct by the whole history",
		"recovered-after-backoff", "blocked-in-backoff-while-up", "neterr-fallback-ok", "neterr-fallback-fails",
		"all-down-query-to-fallback", "plainerr-no-fallback", "no-fallbacks-refresh-with-down-main",
		"init-probe-failed-no-fallbacks", "init-probe-failed-with-fallbacks",
		"query-after-established-conns-dropped-with-2+-idle", "query-to-udp-silent-main", "query-to-tcp-stalling-main", "health-check-with-udp-silent-main", "query-truncated-then-tcp-refused",
		"query-truncated-then-tcp", "query-to-main-with-timeout-zero", "query-with-dead-context", "queries-during-health-check",
		"query-before-first-health-check", "refresh-reports-all-mains-down")
	st.Finish(t)

	rapid.Check(t, vc17SocketsProperty(st, false))
}

// vc17SlowProbeTimeouts are the time-outs T of a silent main in the
// slow-probe histories; a probe of it takes T to fail (the client's retry on
// a fresh connection shares the deadline).  vc17SlowProbeBackoffs are drawn with them so
// that the probe's duration is above, about and below the backoff.
var (
	vc17SlowProbeTimeouts = []time.Duration{25 * time.Millisecond, 60 * time.Millisecond}
	vc17SlowProbeBackoffs = []time.Duration{20 * time.Millisecond, 40 * time.Millisecond, 100 * time.Millisecond, 150 * time.Millisecond, 400 * time.Millisecond, 30 * time.Second}
)

func TestVerifC17SlowProbe(t *testing.T) {
	st := vstat.New("C17", "forward.slowprobe",
		"rapid histories over the socket fixture (1-3 mains, the silent one at a drawn position, 1-2 fallbacks, real UpstreamPlain clients; the failing round has its own time-out T/2, T, 3T or 5 s; in a third of the cases a later round re-probes the silent main for 150 ms while a query with a 40 ms budget is sent 37 ms into it, judged after a control query and one repetition): a main in rotation turns silent (bound, reads, never answers) with time-out T in {25,60} ms, so that its health-check probe takes T to fail; backoff in {20,40,100,150,400 ms, 30 s} (probe duration above and below the backoff); the main comes back; the clock is stepped to backoff minus 1/2 or 1/4 of the probe's duration (inside the window between 'backoff since the probe STARTED' and 'backoff since its failure was ESTABLISHED'), to well before it, or past the backoff; a health-check round and queries follow.  The reference counts the backoff from the moment the failing probe returned (a lower bound of the failure), so it says 'still out of rotation' only when the backoff cannot have elapsed since the failure; non-trivial = a round inside the window, distinct by the whole history",
		"refresh-in-window-after-slow-probe-failure", "slow-probe-longer-than-backoff", "slow-probe-shorter-than-backoff",
		"blocked-in-backoff-while-up", "recovered-after-backoff", "health-check-with-udp-silent-main",
		"round-timeout-not-above-upstream-timeout-with-silent-main-not-last", "query-during-round-with-slow-probe")
	st.Finish(t)

	rapid.Check(t, vc17SocketsProperty(st, true))
}

// vc17SocketsProperty is the property of the socket-level histories.  With
// slowProbe it generates only the slow-failing-probe scenario.
func vc17SocketsProperty(st *vstat.Stats, slowProbe bool) func(t *rapid.T) {
	ctx := context.Background()

	return func(t *rapid.T) {
		nMain := rapid.IntRange(1, 2).Draw(t, "mains")
		nFb := rapid.SampledFrom([]int{0, 1, 1, 2}).Draw(t, "fallbacks")
		backoff := rapid.SampledFrom([]time.Duration{0, 30 * time.Second, 10 * time.Minute}).Draw(t, "backoff")
		if slowProbe {
			nMain = rapid.SampledFrom([]int{1, 2, 2, 3, 3}).Draw(t, "slowMains")
			nFb = max(nFb, 1)
			backoff = rapid.SampledFrom(vc17SlowProbeBackoffs).Draw(t, "slowBackoff")
		}

		seed := rapid.Uint64().Draw(t, "pickSeed")

		// The servers come first; the handler is then built by NewHandler from
		// their addresses, and its own clients are wrapped (not replaced) by
		// recording nodes, so the wiring of the configuration is covered too.
		var nodes []*vc17SockNode
		var mains, fbs []vc17Node
		var mainConfs, fbConfs []*UpstreamPlainConfig
		var h *Handler
		defer func() {
			if h != nil {
				_ = h.Close()
			}

			for _, n := range nodes {
				n.srv.close()
			}
		}()

		for i := range nMain + nFb {
			n := &vc17SockNode{srv: &vc17Srv{}, main: i < nMain, idx: i, name: fmt.Sprintf("main%d", i)}
			if !n.main {
				n.idx = i - nMain
				n.name = fmt.Sprintf("fb%d", n.idx)
			}

			nodes = append(nodes, n)
			if err := n.srv.start(); err != nil {
				st.Class("bind-failed-discarded")
				t.Skipf("binding loopback sockets: %v", err)
			}

			nw := rapid.SampledFrom([]Network{NetworkAny, NetworkAny, NetworkUDP, NetworkTCP, NetworkTCP}).Draw(t, "network")
			n.nw = nw
			n.timeout = rapid.SampledFrom([]time.Duration{vc17Timeout, vc17Timeout, vc17Timeout, 0}).Draw(t, "timeout")
			conf := &UpstreamPlainConfig{Network: nw, Address: n.srv.addr(), Timeout: n.timeout}
			if n.main {
				mains, mainConfs = append(mains, n), append(mainConfs, conf)
			} else {
				fbs, fbConfs = append(fbs, n), append(fbConfs, conf)
			}
		}

		// The construction is part of the history: the servers are put into
		// their initial states first, and NewHandler may run its initial
		// health check against them.
		initDur := rapid.SampledFrom([]time.Duration{0, vc17Timeout}).Draw(t, "initDuration")
		e := vc17NewEnv(nil, mains, fbs, backoff)
		fmt.Fprintf(&e.hist, "m%d f%d b%s init=%s |", nMain, nFb, backoff, initDur)
		initDown := false
		for _, n := range nodes {
			n.env = e
			m := vc17SockUp
			if rapid.Bool().Draw(t, "initiallyDown") {
				m = vc17SockMode(rapid.IntRange(1, int(vc17SockInitLast)).Draw(t, "initMode"))
				initDown = initDown || n.main
			}

			if err := n.setMode(m); err != nil {
				t.Fatalf("harness: %v", err)
			}

			fmt.Fprintf(&e.hist, " %s:%s/%s=%s", n.name, n.nw, n.srv.addr(), vc17SockModeNames[m])
		}

		e.hist.WriteString(" | ")

		opStart := time.Now()
		constructing := true
		caseCut := false
		fail := func(format string, args ...any) {
			msg := fmt.Sprintf(format, args...)
			took := time.Since(opStart)
			switch {
			case e.slowHealthy.Load(), constructing && took > vc17Timeout/2:
				// An upstream that answers at once was slow: the machine is
				// overloaded and may have caused the wrong outcome.
				fmt.Println("VERIF-INCONCLUSIVE: an exchange with a responsive upstream took long (operation: " + took.String() + "); " + msg)
			case took > vc17SlowOp:
				// The outcome is wrong AND the code was slow with an upstream
				// that never answers.  The outcome is the verdict.
				vc17SlowCode.Store(true)
				msg = fmt.Sprintf("%s\n(the operation took %s; for the rest of this process silent upstreams are replaced by closed ones, so a re-run of this case in the same process may pass and be called flaky: the history above is the failing case)", msg, took)
			}

			t.Fatalf("%s", msg)
		}

		// beginOp / endOp bracket every operation on the real code.
		beginOp := func() bool {
			if caseCut {
				return false
			}

			opStart = time.Now()
			e.slowHealthy.Store(false)

			return true
		}

		endOp := func() {
			if time.Since(opStart) > vc17SlowOp {
				// Right outcome, but slow: do not spend more of the run on it.
				caseCut = true
				if vc17SlowCorrect.Add(1) >= 2 {
					vc17SlowCode.Store(true)
				}
			}
		}

		anyStall := func() bool {
			for _, n := range nodes {
				if n.mode == vc17SockStall {
					return true
				}
			}

			return false
		}

		// opCtx is the caller's context of an operation.  While some upstream
		// never answers it always carries the deadline D = vc17Timeout, far
		// above that upstream's time-out T = vc17StallTimeout, as the
		// contexts of the real callers do; otherwise it is drawn.
		opCtx := func() (c context.Context, cancel context.CancelFunc) {
			if anyStall() || rapid.Bool().Draw(t, "ctxWithDeadline") {
				return context.WithTimeout(ctx, vc17Timeout)
			}

			return ctx, func() {}
		}

		construct := func() {
			h = vc17NewHandler(mainConfs, fbConfs, backoff, initDur, "${RANDOM}.hc.verif.test", seed)
			if len(h.upstreams) != nMain || len(h.fallbacks) != nFb {
				t.Fatalf("NewHandler with %d mains and %d fallbacks built %d mains and %d fallbacks", nMain, nFb, len(h.upstreams), len(h.fallbacks))
			}

			for _, n := range nodes {
				var ok bool
				if n.main {
					n.UpstreamPlain, ok = h.upstreams[n.idx].upstream.(*UpstreamPlain)
				} else {
					n.UpstreamPlain, ok = h.fallbacks[n.idx].(*UpstreamPlain)
				}

				if !ok || n.UpstreamPlain.addr != n.srv.addr() {
					fmt.Println("VERIF-INCONCLUSIVE: NewHandler no longer builds *UpstreamPlain clients in configuration order")
					t.Fatalf("harness binding broken")
				}
			}

			vc17Install(h, mains, fbs, false)
			e.h = h
		}

		if initDur > 0 {
			// The initial health check is an ordinary round for the reference;
			// its probes go through the unwrapped clients and are not seen.
			if err := e.refreshRun(fail, construct, false); err != nil {
				t.Fatalf("harness: %v", err)
			}

			switch {
			case initDown && nFb == 0:
				e.class("init-probe-failed-no-fallbacks")
			case initDown:
				e.class("init-probe-failed-with-fallbacks")
			}
		} else {
			construct()
			e.checkActiveState(fail, "after construction without an initial health check")
		}

		constructing = false
		discarded := ""
		setMode := func(n *vc17SockNode, m vc17SockMode) bool {
			if m == vc17SockStall && vc17SlowCode.Load() {
				m = vc17SockClosed
			}

			fmt.Fprintf(&e.hist, "S%s=%s ", n.name, vc17SockModeNames[m])
			if err := n.setMode(m); err != nil {
				discarded = "rebind-failed-discarded"

				return false
			}

			return true
		}

		// settle takes the nodes out of the state in which a health check is
		// not decided: the server goes down completely.
		settle := func() bool {
			for _, n := range nodes {
				if n.vc17Cat() == vc17CatTruncOrNetErr && !setMode(n, vc17SockClosed) {
					return false
				}
			}

			return true
		}

		// roundTimeout, if positive, is the time-out of the context of the
		// next health-check round (the service's healthcheck time-out).
		roundTimeout := time.Duration(0)
		refresh := func() bool {
			if !settle() {
				return false
			}

			if !beginOp() {
				return false
			}

			for _, n := range nodes {
				if n.main && n.mode == vc17SockStall && n.nw != NetworkTCP && e.active[n.idx] {
					e.class("health-check-with-udp-silent-main")
				}
			}

			rctx, cancel := opCtx()
			if roundTimeout > 0 {
				cancel()
				rctx, cancel = context.WithTimeout(ctx, roundTimeout)
				fmt.Fprintf(&e.hist, "round-timeout=%s ", roundTimeout)
			}
			defer cancel()

			e.roundDeadline, _ = rctx.Deadline()
			defer func() { e.roundDeadline = time.Time{} }()
			if err := e.refresh(rctx, fail); err != nil {
				discarded = "clock-ambiguous-discarded"

				return false
			}

			endOp()

			return !caseCut
		}

		doQuery := func() {
			if !beginOp() {
				return
			}

			name := rapid.SampledFrom(vc17QNames).Draw(t, "qname")
			qt := rapid.SampledFrom(vc17QTypes).Draw(t, "qtype")
			qctx, cancel := opCtx()
			defer cancel()
			e.query(qctx, fail, name, qt, rapid.Uint16().Draw(t, "id"), rapid.Bool().Draw(t, "edns"))
			endOp()
		}

		doDeadCtxQuery := func() {
			if !beginOp() {
				return
			}

			var qctx context.Context
			var cancel context.CancelFunc
			if rapid.Bool().Draw(t, "expiredNotCancelled") {
				qctx, cancel = context.WithDeadline(ctx, time.Now().Add(-time.Second))
			} else {
				qctx, cancel = context.WithCancel(ctx)
				cancel()
			}
			defer cancel()

			e.queryWithDeadCtx(qctx, fail, rapid.SampledFrom(vc17QNames).Draw(t, "qname"), dns.TypeA, rapid.Uint16().Draw(t, "id"))
		}

		doConcurrent := func() bool {
			if !settle() || !beginOp() {
				return false
			}

			k := rapid.IntRange(1, 3).Draw(t, "during")
			ids := make([]uint16, k)
			for i := range ids {
				ids[i] = rapid.Uint16().Draw(t, "id")
			}

			cctx, cancel := opCtx()
			defer cancel()
			if err := e.concurrent(cctx, fail, rapid.SampledFrom(vc17QTypes).Draw(t, "qtype"), ids); err != nil {
				discarded = "clock-ambiguous-discarded"

				return false
			}

			endOp()

			return !caseCut
		}

		e.onMainAsked = func(idx int) {
			n := nodes[idx]
			switch {
			case n.mode == vc17SockStall && n.nw != NetworkTCP:
				// Socket bound, requests read and discarded, never answered.
				e.class("query-to-udp-silent-main")
			case n.mode == vc17SockStall:
				// Connection accepted, request read, never answered.
				e.class("query-to-tcp-stalling-main")
			case n.mode == vc17SockTCNoTCP && n.nw != NetworkUDP:
				e.class("query-truncated-then-tcp-refused")
			case n.mode == vc17SockUpTC && n.nw == NetworkAny:
				e.class("query-truncated-then-tcp")
			}

			if n.timeout == 0 {
				e.class("query-to-main-with-timeout-zero")
			}

			if !n.usesTCP() || !n.srv.up {
				return
			}

			if n.mode.cat() == vc17CatReplyOK {
				switch {
				case n.deadIdle >= 2:
					e.class("query-after-established-conns-dropped-with-2+-idle")
				case n.deadIdle == 1:
					e.class("query-after-established-conns-dropped-with-1-idle")
				}
			}

			n.deadIdle = max(0, n.deadIdle-1)
		}

		doBurst := func() {
			if !beginOp() {
				return
			}

			k := rapid.IntRange(2, 4).Draw(t, "burst")
			ids := make([]uint16, k)
			for i := range ids {
				ids[i] = rapid.Uint16().Draw(t, "id")
			}

			for _, n := range nodes {
				n.srv.setPairing(true)
			}

			bctx, cancel := opCtx()
			defer cancel()
			e.burst(bctx, fail, rapid.SampledFrom(vc17QTypes).Draw(t, "qtype"), ids)
			endOp()
			for _, n := range nodes {
				n.srv.setPairing(false)
				if n.idleTCP() >= 2 {
					e.class("two-or-more-idle-tcp-conns")
				}
			}
		}

		doDrop := func(n *vc17SockNode) {
			fmt.Fprintf(&e.hist, "D%s ", n.name)
			n.dropConns()
		}

		eps := 2 * time.Second
		drawDelta := func() time.Duration {
			return max(0, rapid.SampledFrom([]time.Duration{0, eps, backoff - eps, backoff, backoff + eps, backoff / 2}).Draw(t, "delta"))
		}

		// slowRoundWithQuery: n is silent and out of rotation.  Its backoff
		// passes, so the next round probes it again and waits T = 150 ms for the
		// time-out; meanwhile a client's query arrives whose time budget ends
		// long before the round does.  It must be answered by an upstream that
		// is up and eligible (the silent main is not), within its budget: a
		// round in progress must not hold queries up.
		slowRoundWithQuery := func(n *vc17SockNode) bool {
			const budget = 40 * time.Millisecond

			n.stallTimeout = 150 * time.Millisecond
			if !setMode(n, vc17SockStall) {
				return false
			}

			// Control: the same budget with no round in flight.  If the
			// machine cannot serve that now, nothing is concluded below.
			control := func() bool {
				if !beginOp() {
					return false
				}

				cctx, cancel := context.WithTimeout(ctx, budget)
				defer cancel()

				name := "control" + vc17BurstSuffix
				e.log = e.log[:0]
				rw, err := e.send(cctx, name, dns.TypeA, 1, false)

				// The control is good if it went the way the reference says a
				// query goes now (which may well be a failure).
				good := true
				func() {
					defer func() {
						if r := recover(); r != nil {
							if _, soft := r.(vc17Soft); !soft {
								panic(r)
							}

							good = false
						}
					}()

					e.checkQuery(func(format string, args ...any) { panic(vc17Soft{msg: fmt.Sprintf(format, args...)}) },
						name, dns.TypeA, 1, append([]vc17Call(nil), e.log...), rw, err, nil)
				}()

				return good
			}

			attempt := func() (verdict string, inRound, ok bool) {
				e.advance(backoff + time.Second)
				if !control() {
					discarded = "machine-too-slow-for-query-budget-discarded"

					return "", false, false
				}

				if !settle() || !beginOp() {
					return "", false, false
				}

				rctx, cancel := context.WithTimeout(ctx, vc17Timeout)
				defer cancel()

				e.roundDeadline, _ = rctx.Deadline()
				defer func() { e.roundDeadline = time.Time{} }()
				verdict, inRound, err := e.duringRound(rctx, fail, n.stallTimeout/4, budget, rapid.Uint16().Draw(t, "id"))
				if err != nil {
					discarded = "clock-ambiguous-discarded"

					return "", false, false
				}

				endOp()

				return verdict, inRound, !caseCut
			}

			verdict, inRound, ok := attempt()
			if !ok {
				return false
			}

			e.class("query-during-round-attempted")
			if inRound {
				e.class("query-during-round-with-slow-probe")
			}

			if verdict == "" {
				return true
			}

			// Once more before a verdict: a loaded machine can make one
			// query miss its budget.
			e.hist.WriteString("(again) ")
			verdict2, _, ok := attempt()
			if !ok {
				return false
			}

			if verdict2 == "" {
				discarded = "query-during-round-failed-once-discarded"

				return false
			}

			fail("a query sent while a health-check round was waiting for a silent main failed twice, and a control query with the same budget outside a round succeeded both times:\n%s\n%s", verdict, e.describe())

			return false
		}

		// slowProbeScenario: a main in rotation turns silent, its probe takes
		// T to fail, it comes back, and a round runs around the end of the
		// backoff.  Every step is an ordinary checked operation.
		slowProbeScenario := func() bool {
			n := nodes[rapid.IntRange(0, nMain-1).Draw(t, "slowOf")]
			if n.nw == NetworkTCP {
				// A TCP client of a stalling server fails just as slowly.
				e.class("slow-probe-over-tcp")
			}

			if !setMode(n, vc17SockUp) {
				return false
			}

			e.advance(backoff + time.Second)
			if !refresh() {
				return false
			}

			doQuery()
			n.stallTimeout = rapid.SampledFrom(vc17SlowProbeTimeouts).Draw(t, "slowTimeout")
			defer func() { n.stallTimeout = 0 }()
			// A probe of a silent main takes the upstream's time-out T (the
			// client's retry on a fresh connection shares the same deadline).
			probeTakes := n.stallTimeout

			// The round's own time-out relative to the upstream's: smaller,
			// equal (the probe then uses up the round, as with the
			// distributed configuration), larger, or none to speak of.
			switch rapid.IntRange(0, 4).Draw(t, "roundTimeoutKind") {
			case 0:
				roundTimeout = n.stallTimeout / 2
			case 1, 2:
				roundTimeout = n.stallTimeout
			case 3:
				roundTimeout = 3 * n.stallTimeout
			}

			if roundTimeout > 0 {
				probeTakes = min(probeTakes, roundTimeout)
				if roundTimeout <= n.stallTimeout && n.idx < nMain-1 {
					e.class("round-timeout-not-above-upstream-timeout-with-silent-main-not-last")
				}
			}

			if probeTakes >= backoff {
				e.class("slow-probe-longer-than-backoff")
			} else {
				e.class("slow-probe-shorter-than-backoff")
			}

			ok := setMode(n, vc17SockStall) && refresh()
			roundTimeout = 0
			if !ok {
				return false
			}

			if vc17SlowCode.Load() {
				return true
			}

			// The main whose probe failed gets no query.
			doQuery()
			doQuery()

			if rapid.IntRange(0, 1).Draw(t, "queryDuringRound") == 0 {
				return slowRoundWithQuery(n)
			}

			if !setMode(n, vc17SockUp) {
				return false
			}

			switch rapid.IntRange(0, 5).Draw(t, "slowWhen") {
			case 0:
				// Well before the end of the backoff, whatever it is counted
				// from.
				e.advance(max(0, backoff-3*probeTakes))
			case 1:
				e.advance(backoff + time.Second)
			default:
				// Inside the window: the backoff has elapsed since the probe
				// STARTED but not since its failure was established.
				frac := rapid.SampledFrom([]time.Duration{2, 4}).Draw(t, "slowFrac")
				e.advance(max(0, backoff-probeTakes/frac))
				e.class("refresh-in-window-after-slow-probe-failure")
				e.nontrivial = true
			}

			if !refresh() {
				return false
			}

			doQuery()
			doQuery()

			return true
		}

		nOps := rapid.IntRange(3, 14).Draw(t, "nOps")
		if slowProbe {
			nOps = 0
			for range rapid.IntRange(1, 2).Draw(t, "scenarios") {
				if caseCut || !slowProbeScenario() {
					break
				}
			}
		}

	ops:
		for range nOps {
			if caseCut {
				break
			}

			switch rapid.IntRange(0, 17).Draw(t, "op") {
			case 0, 1, 2:
				doQuery()
			case 16, 17:
				// Two mechanisms at once: a main in rotation starts to give
				// truncated UDP replies while its TCP port refuses (or accepts
				// and never answers); the TCP retry and the fail-over meet.
				n := nodes[rapid.IntRange(0, nMain-1).Draw(t, "interactOf")]
				if !setMode(n, vc17SockUp) {
					break ops
				}

				e.advance(backoff + eps)
				if !refresh() {
					break ops
				}

				m := vc17SockTCNoTCP
				if rapid.IntRange(0, 3).Draw(t, "stallInstead") == 0 {
					m = vc17SockStall
				}

				if !setMode(n, m) {
					break ops
				}

				doQuery()
				doQuery()
				if !refresh() {
					break ops
				}

				doQuery()
			case 14:
				doDeadCtxQuery()
			case 15:
				if !doConcurrent() {
					break ops
				}
			case 10:
				doBurst()
			case 11:
				doDrop(rapid.SampledFrom(nodes).Draw(t, "dropOf"))
			case 12, 13:
				// Several idle connections to a main that stays up, then the
				// server drops them; every step is an ordinary checked
				// operation.
				n := nodes[rapid.IntRange(0, nMain-1).Draw(t, "poolOf")]
				m := vc17SockUp
				if n.nw == NetworkAny {
					m = vc17SockUpTC
				}

				if !setMode(n, m) {
					break ops
				}

				e.advance(backoff + eps)
				if !refresh() {
					break ops
				}

				doBurst()
				doDrop(n)
				doQuery()
				doQuery()
			case 3, 4:
				if !refresh() {
					break ops
				}
			case 5, 6:
				n := rapid.SampledFrom(nodes).Draw(t, "node")
				m := vc17SockMode(rapid.IntRange(0, int(vc17SockUpTC)).Draw(t, "mode"))
				if rapid.Bool().Draw(t, "closeInstead") || m == vc17SockStall && rapid.IntRange(0, 3).Draw(t, "stallRarely") != 0 {
					m = vc17SockClosed
				}

				if !setMode(n, m) {
					break ops
				}

				if m == vc17SockClosed || m == vc17SockStall {
					// An outage that no health check has noticed yet.
					doQuery()
				}
			case 7:
				e.advance(drawDelta())
			default:
				n := nodes[rapid.IntRange(0, nMain-1).Draw(t, "outageOf")]
				m := vc17SockMode(rapid.IntRange(1, int(vc17SockDownLast)).Draw(t, "outageMode"))
				if m == vc17SockStall && rapid.IntRange(0, 3).Draw(t, "stallRarely") != 0 {
					m = vc17SockClosed
				}

				if !setMode(n, m) || !refresh() {
					break ops
				}

				doQuery()
				e.advance(drawDelta())
				if !setMode(n, vc17SockUp) || !refresh() {
					break ops
				}

				doQuery()
			}
		}

		if discarded != "" {
			st.Class(discarded)
			t.Skip(discarded)
		}

		if caseCut {
			e.class("slow-code-case-cut")
		}

		nt := ""
		if e.nontrivial {
			nt = e.hist.String()
		}

		cls := make([]string, 0, len(e.classes)+2)
		for c := range e.classes {
			cls = append(cls, c)
		}

		cls = append(cls, fmt.Sprintf("mains=%d", nMain), fmt.Sprintf("fallbacks=%d", nFb))
		st.Case(nt, cls...)
		if e.nontrivial && st.WantSample() {
			st.Sample(e.hist.String())
		}
	}
}
