//go:build verif

package forward

// C17: queries fail over to fallback upstreams and return when the main ones
// recover.  See /verif/DESIGN.md, section 3, C17.
//
// This file holds the reference fail-over state machine and the glue shared by
// the two history checks: scripted fakes (c17_history.go) and real
// UpstreamPlain clients against loopback servers (c17_sockets.go).

import (
	"context"
	"fmt"
	"math"
	"net"
	"strings"
	"sync"
	"sync/atomic"
	"time"

	"github.com/AdguardTeam/golibs/logutil/slogutil"
	"github.com/miekg/dns"
	"golang.org/x/exp/rand"
)

// vc17Cat is what an upstream does with an exchange, as far as the property
// distinguishes it.
type vc17Cat int

const (
	// vc17CatReplyOK: a NOERROR reply matching the query.
	vc17CatReplyOK vc17Cat = iota
	// vc17CatReplyRcode: a matching reply with a non-NOERROR rcode (a reply
	// for a query, a failed probe for a health check).
	vc17CatReplyRcode
	// vc17CatNetErr: the exchange fails with a network error.
	vc17CatNetErr
	// vc17CatPlainErr: the exchange fails with an error that is not a network
	// error (e.g. a reply that does not match the query).
	vc17CatPlainErr
	// vc17CatNil: no reply and no error.
	vc17CatNil
	// vc17CatEOF: the connection was closed by the upstream (io.EOF).  Whether
	// that is a "network error" in the sense of the statement is open, so the
	// reference accepts both routes and only checks the client-visible part.
	vc17CatEOF
	// vc17CatTruncOrNetErr: a truncated UDP reply whose retry over TCP fails
	// with a network error.  Whether the upstream then "replied" (with the
	// truncated message) or "failed with a network error" is open, so both
	// routes are accepted for queries; health checks are not run in this
	// state.
	vc17CatTruncOrNetErr
)

func (c vc17Cat) String() string {
	return [...]string{"ok", "rcode", "neterr", "plainerr", "nil", "eof", "trunc-or-neterr"}[c]
}

func (c vc17Cat) replies() bool { return c == vc17CatReplyOK || c == vc17CatReplyRcode }

// vc17Node is one scripted upstream as the model sees it.
type vc17Node interface {
	Upstream

	// vc17Name is the tag the node puts into every reply it gives.
	vc17Name() string
	// vc17Cat is the node's current behaviour.
	vc17Cat() vc17Cat
}

// vc17Call is one observed Exchange.
type vc17Call struct {
	who   string
	main  bool
	idx   int
	probe bool
	qname string
	qtype uint16
	// at is when the call was made.
	at time.Time
}

// The reference's own limits, deliberately not the constants of the package
// under test: the smallest DNS message with a question (header, root name,
// type, class) and the UDP message size the client documents to handle.
const (
	vc17MinMsg   = 12 + 1 + 4
	vc17UDPLimit = 4096
)

// vc17RoundSlack: a probe of a responsive upstream that was started less than
// this before the round's deadline may or may not have been answered in time;
// vc17RoundLoad is how long such a probe may take on a machine that is not
// overloaded.
const (
	vc17RoundSlack = 8 * time.Millisecond
	vc17RoundLoad  = 4 * time.Millisecond
)

// vc17ProbeSuffix is the suffix of every health-check domain.
const vc17ProbeSuffix = ".hc.verif.test."

// vc17TagName is the owner of the TXT record that names the responder.
const vc17TagName = "responder.verif.test."

func vc17Tag(resp *dns.Msg, who string) {
	resp.Extra = append(resp.Extra, &dns.TXT{
		Hdr: dns.RR_Header{Name: vc17TagName, Rrtype: dns.TypeTXT, Class: dns.ClassINET, Ttl: 1},
		Txt: []string{who},
	})
}

func vc17TagOf(resp *dns.Msg) (who string) {
	if resp == nil {
		return ""
	}

	for _, rr := range resp.Extra {
		if txt, ok := rr.(*dns.TXT); ok && txt.Hdr.Name == vc17TagName && len(txt.Txt) == 1 {
			return txt.Txt[0]
		}
	}

	return ""
}

// vc17RW records what the handler writes to the client.
type vc17RW struct {
	msgs []*dns.Msg
}

func (w *vc17RW) LocalAddr() net.Addr {
	return &net.UDPAddr{IP: net.IP{127, 0, 0, 1}, Port: 53}
}

func (w *vc17RW) RemoteAddr() net.Addr {
	return &net.UDPAddr{IP: net.IP{127, 0, 0, 1}, Port: 12345}
}

func (w *vc17RW) WriteMsg(_ context.Context, _, resp *dns.Msg) (err error) {
	w.msgs = append(w.msgs, resp)

	return nil
}

// vc17MainState is the reference state of one main upstream.
type vc17MainState struct {
	// failed is true from a failed probe until the next successful one.
	failed bool
	// sum is the time the harness clock was advanced since the failure.
	sum time.Duration
	// f0 and f1 bound the wall-clock instant at which the real code stamped
	// the failure.
	f0, f1 time.Time
}

// vc17Env is one handler under test together with its reference model.
type vc17Env struct {
	h       *Handler
	mains   []vc17Node
	fbs     []vc17Node
	backoff time.Duration
	logMu   sync.Mutex
	log     []vc17Call

	// roundDeadline is the deadline of the context of the health-check round
	// being run, if it has one.  A main whose probe was not made before it
	// (the round ran out of time) is not decided by the statement: the
	// reference then takes over what the code did with it.
	roundDeadline time.Time
	// roundLoad is set when, in a round with a deadline, the probe of an
	// upstream that answers at once took long: the machine is loaded and the
	// probe may have run into the deadline.
	roundLoad atomic.Bool

	// probeEnd is, per main, when its last observed health-check probe
	// returned: the earliest moment its failure can count as established.
	probeEnd map[int]time.Time

	// slowHealthy is set when an exchange with an upstream that answers (or
	// refuses) at once took long: the machine, not the code, was slow.
	slowHealthy atomic.Bool

	// refreshed is set by the first health-check round with fallbacks.
	refreshed bool

	// onMainAsked, if set, is told which main a checked query went to.
	onMainAsked func(idx int)

	// Reference state.
	active []bool
	st     []vc17MainState

	// hist is the compact history, used in failure messages and as identity.
	hist strings.Builder

	// classes reached by this history.
	classes map[string]struct{}
	// nontrivial is set once a down->up decision around the backoff was made.
	nontrivial bool
}

// vc17Fail is how the model reports a verdict.
type vc17Fail func(format string, args ...any)

// vc17ErrAmbiguous is returned when the wall clock moved across a backoff
// boundary between the harness's writes and the code's reads, so that the
// reference cannot tell which side the code saw.
type vc17ErrAmbiguous struct{ what string }

func (e *vc17ErrAmbiguous) Error() string { return e.what }

func vc17NewHandler(mainConfs, fbConfs []*UpstreamPlainConfig, backoff, initDur time.Duration, tmpl string, seed uint64) (h *Handler) {
	h = NewHandler(&HandlerConfig{
		Logger:                     slogutil.NewDiscardLogger(),
		HealthcheckDomainTmpl:      tmpl,
		UpstreamsAddresses:         mainConfs,
		FallbackAddresses:          fbConfs,
		HealthcheckBackoffDuration: backoff,
		HealthcheckInitDuration:    initDur,
	})
	// The handler's own selection randomness is made a function of the drawn
	// seed so that every history replays.
	src := &rand.LockedSource{}
	src.Seed(seed)
	h.rand = rand.New(src)

	return h
}

// vc17Install puts the nodes into the upstream slots of h (built with the
// right numbers of mains and fallbacks).  closeOld closes the clients that
// were in the slots; it is false when the nodes wrap those very clients.
func vc17Install(h *Handler, mains, fbs []vc17Node, closeOld bool) {
	for i, m := range mains {
		old := h.upstreams[i].upstream
		if closeOld {
			_ = old.Close()
		}

		h.upstreams[i].upstream = m
		// The eligible set may already have been reduced by the initial
		// health check: replace by identity, not by position.
		for j, a := range h.activeUpstreams {
			if a == old {
				h.activeUpstreams[j] = m
			}
		}
	}

	for i, f := range fbs {
		if closeOld {
			_ = h.fallbacks[i].Close()
		}

		h.fallbacks[i] = f
	}
}

func vc17NewEnv(h *Handler, mains, fbs []vc17Node, backoff time.Duration) (e *vc17Env) {
	e = &vc17Env{
		h:       h,
		mains:   mains,
		fbs:     fbs,
		backoff: backoff,
		active:  make([]bool, len(mains)),
		st:      make([]vc17MainState, len(mains)),
		classes: map[string]struct{}{},
	}

	for i := range e.active {
		e.active[i] = true
	}

	return e
}

func (e *vc17Env) class(c string) { e.classes[c] = struct{}{} }

func (e *vc17Env) record(c vc17Call) {
	c.at = time.Now()
	e.logMu.Lock()
	defer e.logMu.Unlock()

	e.log = append(e.log, c)
}

// noteProbeEnd is called by a recording upstream when a probe to main idx has
// returned.
func (e *vc17Env) noteProbeEnd(idx int) {
	now := time.Now()
	e.logMu.Lock()
	defer e.logMu.Unlock()

	if e.probeEnd == nil {
		e.probeEnd = map[int]time.Time{}
	}

	e.probeEnd[idx] = now
}

// failedSince is the lower bound of the instant main idx's failure was
// established in the round that ran in [t2, t3]: when its probe returned, if
// that was observed, else the start of the round.  (The upper bound is the end
// of the round.)  Measuring the backoff from a LOWER bound of the failure
// keeps the tolerance on the safe side: the reference says "still in backoff"
// only when the backoff cannot have elapsed since the failure.
func (e *vc17Env) failedSince(idx int, t2, t3 time.Time) time.Time {
	e.logMu.Lock()
	defer e.logMu.Unlock()

	if pe, ok := e.probeEnd[idx]; ok && !pe.Before(t2) && !pe.After(t3) {
		return pe
	}

	return t2
}

func (e *vc17Env) activeCount() (n int) {
	for _, a := range e.active {
		if a {
			n++
		}
	}

	return n
}

func vc17SatAdd(a, b time.Duration) time.Duration {
	if b > 0 && a > math.MaxInt64-b {
		return math.MaxInt64
	}

	return a + b
}

// advance moves the harness clock: every failure timestamp kept by the real
// handler is rewound by d.  Zero timestamps mean "healthy" and are left alone.
func (e *vc17Env) advance(d time.Duration) {
	fmt.Fprintf(&e.hist, "A%s ", d)
	for _, s := range e.h.upstreams {
		if !s.lastFailedHealthcheck.IsZero() {
			s.lastFailedHealthcheck = s.lastFailedHealthcheck.Add(-d)
		}
	}

	for i := range e.st {
		if e.st[i].failed {
			e.st[i].sum = vc17SatAdd(e.st[i].sum, d)
		}
	}
}

func (e *vc17Env) describe() string {
	var b strings.Builder
	fmt.Fprintf(&b, "mains=%d fallbacks=%d backoff=%s history: %s\nmodel:", len(e.mains), len(e.fbs), e.backoff, e.hist.String())
	for i, m := range e.mains {
		fmt.Fprintf(&b, " %s{cat=%s active=%v failed=%v sum=%s}", m.vc17Name(), m.vc17Cat(), e.active[i], e.st[i].failed, e.st[i].sum)
	}

	for _, f := range e.fbs {
		fmt.Fprintf(&b, " %s{cat=%s}", f.vc17Name(), f.vc17Cat())
	}

	if e.h == nil {
		return b.String()
	}

	b.WriteString("\nreal: active=[")
	for _, u := range e.h.activeUpstreams {
		b.WriteString(u.String() + " ")
	}

	b.WriteString("]")
	for _, s := range e.h.upstreams {
		fmt.Fprintf(&b, " %s.lastFailed.IsZero=%v", s.upstream, s.lastFailedHealthcheck.IsZero())
	}

	return b.String()
}

func vc17LogString(calls []vc17Call) string {
	var b strings.Builder
	for _, c := range calls {
		k := "query"
		if c.probe {
			k = "probe"
		}

		fmt.Fprintf(&b, "%s<-%s(%s) ", c.who, k, c.qname)
	}

	return b.String()
}

// refresh runs one health-check round on the real handler and on the
// reference, and compares.
func (e *vc17Env) refresh(ctx context.Context, fail vc17Fail) (err error) {
	e.hist.WriteString("R ")

	var rerr error
	err = e.refreshRun(fail, func() { rerr = e.h.Refresh(ctx) }, true)
	if err != nil {
		return err
	}

	e.checkRefreshErr(fail, rerr)

	return nil
}

// checkRefreshErr: Handler.Refresh is documented to return an error in case
// all main upstreams are down (and requests go to the fallbacks).
func (e *vc17Env) checkRefreshErr(fail vc17Fail, rerr error) {
	if len(e.fbs) > 0 && e.activeCount() == 0 {
		e.class("refresh-reports-all-mains-down")
		if rerr == nil {
			fail("no main upstream is eligible after the health check but Refresh returned no error\n%s", e.describe())
		}
	}
}

// vc17Soft carries a verdict that may still be withdrawn.
type vc17Soft struct{ msg string }

// duringRound runs one health-check round and, delay after its start, sends
// one query whose context expires after budget.  The round is judged as usual;
// the query may have seen the eligible set from before or from after the
// round.  A failing verdict on the query is returned, not raised, so that the
// caller can repeat the experiment before trusting it.  inRound tells whether
// the query was really sent while the round was in flight and the round was
// still running when the query's budget ended.
func (e *vc17Env) duringRound(ctx context.Context, fail vc17Fail, delay, budget time.Duration, id uint16) (verdict string, inRound bool, err error) {
	fmt.Fprintf(&e.hist, "C@%s/%s ", delay, budget)

	before := append([]bool(nil), e.active...)
	name := "d0" + vc17BurstSuffix
	var (
		rw                 *vc17RW
		qerr               error
		sent, done, rndEnd time.Time
	)

	err = e.refreshRun(fail, func() {
		var wg sync.WaitGroup
		wg.Add(1)
		go func() {
			defer wg.Done()

			time.Sleep(delay)
			qctx, cancel := context.WithTimeout(ctx, budget)
			defer cancel()

			sent = time.Now()
			rw, qerr = e.send(qctx, name, dns.TypeA, id, false)
			done = time.Now()
		}()

		_ = e.h.Refresh(ctx)
		rndEnd = time.Now()
		wg.Wait()
	}, true)
	if err != nil {
		return "", false, err
	}

	inRound = sent.Add(budget).Before(rndEnd)

	var calls []vc17Call
	for _, c := range e.log {
		if c.qname == name {
			calls = append(calls, c)
		}
	}

	func() {
		defer func() {
			if r := recover(); r != nil {
				soft, ok := r.(vc17Soft)
				if !ok {
					panic(r)
				}

				verdict = fmt.Sprintf("%s\n(query sent %s into a round of %s, budget %s, returned after %s)", soft.msg, delay, rndEnd.Sub(sent.Add(-delay)), budget, done.Sub(sent))
			}
		}()

		softFail := func(format string, args ...any) { panic(vc17Soft{msg: fmt.Sprintf(format, args...)}) }
		e.checkQuery(softFail, name, dns.TypeA, id, calls, rw, qerr, before)
	}()

	return verdict, inRound, nil
}

// vc17BurstSuffix ends the names of queries that are sent simultaneously.
const vc17BurstSuffix = ".burst.example."

// concurrent runs one health-check round WHILE k queries are in flight.  The
// behaviours of the upstreams do not change meanwhile, so the round itself is
// judged as usual; each query may have seen the eligible set from before or
// from after the round.
func (e *vc17Env) concurrent(ctx context.Context, fail vc17Fail, qtype uint16, ids []uint16) (err error) {
	fmt.Fprintf(&e.hist, "C%d ", len(ids))

	before := append([]bool(nil), e.active...)

	type result struct {
		rw  *vc17RW
		err error
	}

	results := make([]result, len(ids))
	names := make([]string, len(ids))
	var rerr error
	err = e.refreshRun(fail, func() {
		var wg sync.WaitGroup
		start := make(chan struct{})
		for i := range ids {
			names[i] = fmt.Sprintf("c%d%s", i, vc17BurstSuffix)
			wg.Add(1)
			go func() {
				defer wg.Done()

				<-start
				rw, qerr := e.send(ctx, names[i], qtype, ids[i], i%2 == 1)
				results[i] = result{rw: rw, err: qerr}
			}()
		}

		wg.Add(1)
		go func() {
			defer wg.Done()

			<-start
			rerr = e.h.Refresh(ctx)
		}()

		close(start)
		wg.Wait()
	}, true)
	if err != nil {
		return err
	}

	e.checkRefreshErr(fail, rerr)
	e.class("queries-during-health-check")

	all := append([]vc17Call(nil), e.log...)
	for i := range ids {
		var calls []vc17Call
		for _, c := range all {
			if c.qname == names[i] {
				calls = append(calls, c)
			}
		}

		e.checkQuery(fail, names[i], qtype, ids[i], calls, results[i].rw, results[i].err, before)
	}

	return nil
}

// refreshRun runs one health-check round of the real code through run and the
// same round on the reference, and compares.  run may be the handler's
// construction with its initial health check, in which case it sets e.h and
// the calls are not recorded (observable is false).
func (e *vc17Env) refreshRun(fail vc17Fail, run func(), observable bool) (err error) {
	e.log = e.log[:0]

	t2 := time.Now()
	run()
	t3 := time.Now()

	if e.roundLoad.Swap(false) {
		return &vc17ErrAmbiguous{what: "a probe of a responsive upstream took long in a round with a deadline"}
	}

	probes := make([]int, len(e.mains))
	firstProbe := map[int]time.Time{}
	for _, c := range e.log {
		if strings.HasSuffix(c.qname, vc17BurstSuffix) {
			// A client's query in flight during the round.
			continue
		}

		if !c.probe {
			fail("a health-check round sent a non-probe query %q to %s\n%s", c.qname, c.who, e.describe())
		}

		if c.main {
			if probes[c.idx] == 0 {
				firstProbe[c.idx] = c.at
			}

			probes[c.idx]++
		}
	}

	if len(e.fbs) == 0 {
		// Without fallbacks main upstreams are never taken out of rotation,
		// whatever their health.
		e.class("no-fallbacks-refresh")
		for _, m := range e.mains {
			if m.vc17Cat() != vc17CatReplyOK {
				e.class("no-fallbacks-refresh-with-down-main")
			}
		}

		e.checkActiveState(fail, "after a refresh without fallbacks")

		return nil
	}

	for i, m := range e.mains {
		s := &e.st[i]
		if m.vc17Cat() == vc17CatTruncOrNetErr {
			fail("harness error: a health check was run while %s is in an undecided state\n%s", m.vc17Name(), e.describe())
		}

		up := m.vc17Cat() == vc17CatReplyOK

		inBackoff := false
		if s.failed {
			// The code saw an age between lo and hi.
			lo := vc17SatAdd(s.sum, t2.Sub(s.f1))
			hi := vc17SatAdd(s.sum, t3.Sub(s.f0))
			switch {
			case hi < e.backoff:
				inBackoff = true
			case lo >= e.backoff:
				inBackoff = false
			default:
				return &vc17ErrAmbiguous{what: fmt.Sprintf("age of %s's failure in [%s, %s] straddles backoff %s", m.vc17Name(), lo, hi, e.backoff)}
			}

			if up {
				e.nontrivial = true
				left := e.backoff - s.sum
				switch {
				case inBackoff:
					e.class("blocked-in-backoff-while-up")
					if left <= time.Second {
						e.class("boundary-just-before-blocked")
					}
				case e.backoff == 0:
					e.class("recovered-zero-backoff")
				default:
					e.class("recovered-after-backoff")
					if s.sum == e.backoff {
						e.class("boundary-exact-recovered")
					} else if -left <= time.Second {
						e.class("boundary-just-after-recovered")
					}
				}
			} else if !inBackoff {
				e.class("refail-after-backoff")
			}
		}

		if inBackoff {
			// Not used again until the backoff has elapsed.  The documentation
			// allows the probe to be sent anyway ("the healthcheck is still
			// performed, and each failed check advances the backoff"), so a
			// probe here is not a verdict; only a return to rotation is.
			e.active[i] = false
			if probes[i] > 0 {
				e.class("probe-sent-in-backoff")
				if !up {
					*s = vc17MainState{failed: true, f0: e.failedSince(i, t2, t3), f1: t3}
				}
			}

			continue
		}

		if dl := e.roundDeadline; observable && !dl.IsZero() {
			at, probed := firstProbe[i]
			undecided := false
			switch {
			case !probed:
				// Not probed because the round had run out of time?
				undecided = !t3.Before(dl)
			case !at.Before(dl):
				// "Probed" with a context that had already expired.
				undecided = true
			case up && dl.Sub(at) < vc17RoundSlack:
				undecided = true
			}

			if undecided {
				// Whether a main that the round did not get to (in time) stays
				// in rotation is not decided: take over what the code did.
				in := false
				e.h.activeUpstreamsMu.RLock()
				for _, u := range e.h.activeUpstreams {
					in = in || u == Upstream(m)
				}
				e.h.activeUpstreamsMu.RUnlock()

				e.active[i] = in
				if in {
					e.class("round-ran-out-unprobed-main-stays-in")
					*s = vc17MainState{}
					if !e.h.upstreams[i].lastFailedHealthcheck.IsZero() {
						// In rotation, yet with a failure on record: from now
						// on the code and the reference would disagree about
						// the backoff.  Not decided either; end the case.
						return &vc17ErrAmbiguous{what: "an unprobed main stays in rotation with a failure time on record"}
					}
				} else {
					e.class("round-ran-out-unprobed-main-taken-out")
					*s = vc17MainState{failed: true, f0: e.failedSince(i, t2, t3), f1: t3}
				}

				continue
			}
		}

		if observable && probes[i] == 0 {
			fail("main %s is not in backoff but was not probed by the health-check round\n%s", m.vc17Name(), e.describe())
		}

		wasFailed := s.failed
		if up {
			e.active[i] = true
			*s = vc17MainState{}
		} else {
			if m.vc17Cat() == vc17CatReplyRcode {
				e.class("probe-failed-by-rcode")
			}

			e.active[i] = false
			*s = vc17MainState{failed: true, f0: e.failedSince(i, t2, t3), f1: t3}
		}

		// The anchored state: zero iff the last health check succeeded, else
		// the time of that failed check.
		lf := e.h.upstreams[i].lastFailedHealthcheck
		switch {
		case up && !lf.IsZero():
			fail("main %s passed its probe (previously failed: %v) but its failure time was not reset\n%s", m.vc17Name(), wasFailed, e.describe())
		case !up && (lf.Before(t2) || lf.After(t3)):
			fail("main %s failed its probe but its failure time %s is not the time of this round [%s, %s]\n%s", m.vc17Name(), lf, t2, t3, e.describe())
		}
	}

	e.refreshed = true
	n := e.activeCount()
	switch {
	case n == 0:
		e.class("all-mains-out")
	case n < len(e.mains):
		e.class("partial-active")
	}

	e.checkActiveState(fail, "after a refresh")

	return nil
}

// checkActiveState compares the handler's set of eligible mains with the
// reference.
func (e *vc17Env) checkActiveState(fail vc17Fail, when string) {
	got := make([]int, len(e.mains))
	e.h.activeUpstreamsMu.RLock()
	defer e.h.activeUpstreamsMu.RUnlock()

	for _, u := range e.h.activeUpstreams {
		found := false
		for i, m := range e.mains {
			if u == Upstream(m) {
				got[i]++
				found = true
			}
		}

		if !found {
			fail("%s: eligible set contains %s, which is not a main upstream\n%s", when, u, e.describe())
		}
	}

	for i, m := range e.mains {
		want := 0
		if e.active[i] {
			want = 1
		}

		if got[i] != want {
			fail("%s: main %s occurs %d times in the eligible set, reference says %d\n%s", when, m.vc17Name(), got[i], want, e.describe())
		}
	}
}

// query sends one query through the real handler and checks where it went and
// what the client got.
func (e *vc17Env) query(ctx context.Context, fail vc17Fail, name string, qtype uint16, id uint16, edns bool) {
	fmt.Fprintf(&e.hist, "Q ")
	e.log = e.log[:0]
	if !e.refreshed {
		e.class("query-before-first-health-check")
	}

	rw, err := e.send(ctx, name, qtype, id, edns)
	e.checkQuery(fail, name, qtype, id, e.log, rw, err, nil)
}

// queryWithDeadCtx sends one query with a context that is already cancelled or
// past its deadline.  The statement does not say what the client gets then;
// what stays decided is where the query may go and what may be written: at
// most one eligible main, at most one fallback, and nothing but a matching
// reply of an upstream that was asked.
func (e *vc17Env) queryWithDeadCtx(ctx context.Context, fail vc17Fail, name string, qtype uint16, id uint16) {
	fmt.Fprintf(&e.hist, "X ")
	e.log = e.log[:0]
	e.class("query-with-dead-context")

	rw, err := e.send(ctx, name, qtype, id, false)
	calls := e.log
	where := func() string {
		return fmt.Sprintf("query %q id=%d with a dead context: calls: %s; err=%v; written=%d (%s)\n%s",
			name, id, vc17LogString(calls), err, len(rw.msgs), vc17TagOf(vc17First(rw.msgs)), e.describe())
	}

	nMain, nFb := 0, 0
	asked := map[string]bool{}
	for _, c := range calls {
		asked[c.who] = true
		switch {
		case c.probe || c.qname != name || c.qtype != qtype:
			fail("an upstream received something other than the client's question: %+v\n%s", c, where())
		case c.main:
			nMain++
			if !e.active[c.idx] {
				fail("main %s is out of rotation but received the query\n%s", c.who, where())
			}
		default:
			nFb++
		}
	}

	if nMain > 1 || nFb > 1 {
		fail("more than one attempt on a main or on a fallback\n%s", where())
	}

	switch {
	case len(rw.msgs) > 1:
		fail("more than one response written\n%s", where())
	case len(rw.msgs) == 1:
		resp := rw.msgs[0]
		if err != nil || resp == nil || !asked[vc17TagOf(resp)] {
			fail("the client got something that is not the reply of an upstream that was asked\n%s", where())
		}

		if resp.Id != id || len(resp.Question) != 1 || !strings.EqualFold(resp.Question[0].Name, name) || resp.Question[0].Qtype != qtype {
			fail("reply does not match the query\n%s", where())
		}
	case err == nil:
		fail("nothing was written and no error was returned\n%s", where())
	}
}

// send puts one query through the real handler.
func (e *vc17Env) send(ctx context.Context, name string, qtype uint16, id uint16, edns bool) (rw *vc17RW, err error) {
	req := &dns.Msg{
		MsgHdr:   dns.MsgHdr{Id: id, RecursionDesired: true},
		Question: []dns.Question{{Name: name, Qtype: qtype, Qclass: dns.ClassINET}},
	}
	if edns {
		// What the real callers pass on: the client's OPT record.
		req.SetEdns0(1232, true)
	}
	rw = &vc17RW{}
	err = e.h.ServeDNS(ctx, rw, req)

	return rw, err
}

// burst sends k queries with distinct names at the same time and checks each
// of them like a single query; the behaviours of the upstreams do not change
// during the burst.
func (e *vc17Env) burst(ctx context.Context, fail vc17Fail, qtype uint16, ids []uint16) {
	fmt.Fprintf(&e.hist, "B%d ", len(ids))
	e.log = e.log[:0]

	type result struct {
		rw  *vc17RW
		err error
	}

	results := make([]result, len(ids))
	names := make([]string, len(ids))
	var wg sync.WaitGroup
	for i := range ids {
		names[i] = fmt.Sprintf("b%d%s", i, vc17BurstSuffix)
		wg.Add(1)
		go func() {
			defer wg.Done()

			rw, err := e.send(ctx, names[i], qtype, ids[i], i%2 == 1)
			results[i] = result{rw: rw, err: err}
		}()
	}

	wg.Wait()

	all := append([]vc17Call(nil), e.log...)
	for i := range ids {
		var calls []vc17Call
		for _, c := range all {
			if c.qname == names[i] {
				calls = append(calls, c)
			}
		}

		e.checkQuery(fail, names[i], qtype, ids[i], calls, results[i].rw, results[i].err, nil)
	}

	for _, c := range all {
		if !strings.HasSuffix(c.qname, vc17BurstSuffix) {
			fail("an upstream received %q during a burst of other queries\n%s", c.qname, e.describe())
		}
	}
}

// checkQuery checks where one query went (calls, in order) and what the client
// got.  alt, if not nil, is a second eligible set the query may have seen
// instead of the current one (a health check ran at the same time).
func (e *vc17Env) checkQuery(fail vc17Fail, name string, qtype uint16, id uint16, calls []vc17Call, rw *vc17RW, err error, alt []bool) {
	altCount := -1
	if alt != nil {
		altCount = 0
		for _, a := range alt {
			if a {
				altCount++
			}
		}
	}

	where := func() string {
		return fmt.Sprintf("query %q id=%d: calls: %s; err=%v; written=%d (%s)\n%s",
			name, id, vc17LogString(calls), err, len(rw.msgs), vc17TagOf(vc17First(rw.msgs)), e.describe())
	}

	for _, c := range calls {
		if c.probe || c.qname != name || c.qtype != qtype {
			fail("an upstream received something other than the client's question: %+v\n%s", c, where())
		}
	}

	if len(rw.msgs) > 1 {
		fail("more than one response written\n%s", where())
	}

	// expectFrom checks the outcome given the upstream whose result decides.
	var expectOutcome func(n vc17Node, replied bool)
	expectFrom := func(n vc17Node) { expectOutcome(n, n.vc17Cat().replies()) }
	expectOutcome = func(n vc17Node, replied bool) {
		if replied {
			if err != nil || len(rw.msgs) != 1 {
				fail("%s replied but the client did not get exactly that reply\n%s", n.vc17Name(), where())
			}

			resp := rw.msgs[0]
			if resp == nil || vc17TagOf(resp) != n.vc17Name() {
				fail("%s's reply decides but the client got the reply of %q\n%s", n.vc17Name(), vc17TagOf(resp), where())
			}

			if resp.Id != id || len(resp.Question) != 1 || !strings.EqualFold(resp.Question[0].Name, name) || resp.Question[0].Qtype != qtype {
				fail("reply does not match the query\n%s", where())
			}

			if n.vc17Cat() == vc17CatReplyRcode {
				e.class("rcode-reply-passed-through")
			}

			return
		}

		if err == nil || len(rw.msgs) != 0 {
			fail("%s did not reply (%s) but the client did not get a failure\n%s", n.vc17Name(), n.vc17Cat(), where())
		}
	}

	var mainCalls, fbCalls []vc17Call
	for _, c := range calls {
		if c.main {
			mainCalls = append(mainCalls, c)
		} else {
			fbCalls = append(fbCalls, c)
		}
	}

	// emptySeen: the query saw (or, with alt, may have seen) no eligible main.
	emptySeen := e.activeCount() == 0
	if alt != nil && e.activeCount() != altCount && (e.activeCount() == 0 || altCount == 0) {
		// One of the two sets is empty: the route tells which one was seen.
		emptySeen = len(mainCalls) == 0
	}

	if emptySeen {
		// No healthy main: straight to one fallback, once.
		if len(e.fbs) == 0 {
			fail("reference has no eligible main and no fallbacks: harness error\n%s", where())
		}

		e.class("all-down-query-to-fallback")
		if len(mainCalls) != 0 {
			fail("no main is eligible but %s received the query\n%s", mainCalls[0].who, where())
		}

		if len(fbCalls) != 1 {
			fail("no main is eligible: want exactly one fallback attempt, got %d\n%s", len(fbCalls), where())
		}

		f := e.fbs[fbCalls[0].idx]
		if !f.vc17Cat().replies() {
			e.class("all-down-fallback-fails")
		}

		expectFrom(f)

		return
	}

	if len(mainCalls) != 1 {
		fail("want exactly one attempt on a main upstream, got %d\n%s", len(mainCalls), where())
	}

	if !calls[0].main {
		fail("a fallback was asked before the main upstream\n%s", where())
	}

	mi := mainCalls[0].idx
	if e.onMainAsked != nil {
		e.onMainAsked(mi)
	}

	if !e.active[mi] && !(alt != nil && alt[mi]) {
		fail("main %s is out of rotation but received the query\n%s", e.mains[mi].vc17Name(), where())
	}

	m := e.mains[mi]
	switch cat := m.vc17Cat(); cat {
	case vc17CatReplyOK, vc17CatReplyRcode:
		if len(fbCalls) != 0 {
			fail("main %s replied but a fallback was asked too\n%s", m.vc17Name(), where())
		}

		expectFrom(m)
	case vc17CatNetErr:
		if len(e.fbs) == 0 {
			e.class("neterr-no-fallbacks")
			expectFrom(m)

			return
		}

		if len(fbCalls) != 1 {
			fail("main %s failed with a network error: want exactly one fallback attempt, got %d\n%s", m.vc17Name(), len(fbCalls), where())
		}

		f := e.fbs[fbCalls[0].idx]
		if f.vc17Cat().replies() {
			e.class("neterr-fallback-ok")
		} else {
			e.class("neterr-fallback-fails")
		}

		expectFrom(f)
	case vc17CatPlainErr:
		e.class("plainerr-no-fallback")
		if len(fbCalls) != 0 {
			fail("main %s failed with a non-network error but a fallback was asked\n%s", m.vc17Name(), where())
		}

		expectFrom(m)
	case vc17CatTruncOrNetErr:
		switch {
		case len(fbCalls) > 1:
			fail("more than one fallback attempt\n%s", where())
		case len(fbCalls) == 1:
			e.class("truncated-then-tcp-refused-failed-over")
			expectFrom(e.fbs[fbCalls[0].idx])
		case len(e.fbs) == 0 && err != nil:
			expectOutcome(m, false)
		default:
			e.class("truncated-then-tcp-refused-truncated-reply-relayed")
			expectOutcome(m, true)
		}
	case vc17CatNil, vc17CatEOF:
		// The statement does not say whether an absent reply without an error,
		// or a closed connection, goes to a fallback; only the client-visible
		// part is decided.
		switch {
		case cat == vc17CatNil:
			e.class("nil-reply")
		case len(fbCalls) == 0 && len(e.fbs) > 0:
			e.class("eof-main-not-failed-over")
		default:
			e.class("eof-main-failed-over-or-no-fallbacks")
		}

		if len(fbCalls) > 1 {
			fail("more than one fallback attempt\n%s", where())
		}

		if len(fbCalls) == 1 {
			expectFrom(e.fbs[fbCalls[0].idx])
		} else {
			expectFrom(m)
		}
	}
}

func vc17First(ms []*dns.Msg) *dns.Msg {
	if len(ms) == 0 {
		return nil
	}

	return ms[0]
}

func vc17IsProbeName(n string) bool {
	return strings.HasSuffix(strings.ToLower(n), vc17ProbeSuffix)
}
