//go:build verif

package forward

// C17: queries fail over to fallback upstreams and return when the main ones
// recover.  See /verif/DESIGN.md, section 3, C17.
//
// This file holds the reference fail-over state machine and the glue shared by
// the two history checks: scripted fakes (c17_history.go) and real
// UpstreamPlain clients against loopback servers (c17_sockets.go).

import (
	"context"
	"fmt"
	"math"
	"net"
	"strings"
	"sync"
	"time"

	"github.com/AdguardTeam/golibs/logutil/slogutil"
	"github.com/miekg/dns"
	"golang.org/x/exp/rand"
)

// vc17Cat is what an upstream does with an exchange, as far as the property
// distinguishes it.
type vc17Cat int

const (
	// vc17CatReplyOK: a NOERROR reply matching the query.
	vc17CatReplyOK vc17Cat = iota
	// vc17CatReplyRcode: a matching reply with a non-NOERROR rcode (a reply
	// for a query, a failed probe for a health check).
	vc17CatReplyRcode
	// vc17CatNetErr: the exchange fails with a network error.
	vc17CatNetErr
	// vc17CatPlainErr: the exchange fails with an error that is not a network
	// error (e.g. a reply that does not match the query).
	vc17CatPlainErr
	// vc17CatNil: no reply and no error.
	vc17CatNil
	// vc17CatEOF: the connection was closed by the upstream (io.EOF).  Whether
	// that is a "network error" in the sense of the statement is open, so the
	// reference accepts both routes and only checks the client-visible part.
	vc17CatEOF
)

func (c vc17Cat) String() string {
	return [...]string{"ok", "rcode", "neterr", "plainerr", "nil", "eof"}[c]
}

func (c vc17Cat) replies() bool { return c == vc17CatReplyOK || c == vc17CatReplyRcode }

// vc17Node is one scripted upstream as the model sees it.
type vc17Node interface {
	Upstream

	// vc17Name is the tag the node puts into every reply it gives.
	vc17Name() string
	// vc17Cat is the node's current behaviour.
	vc17Cat() vc17Cat
}

// vc17Call is one observed Exchange.
type vc17Call struct {
	who   string
	main  bool
	idx   int
	probe bool
	qname string
	qtype uint16
}

// vc17ProbeSuffix is the suffix of every health-check domain.
const vc17ProbeSuffix = ".hc.verif.test."

// vc17TagName is the owner of the TXT record that names the responder.
const vc17TagName = "responder.verif.test."

func vc17Tag(resp *dns.Msg, who string) {
	resp.Extra = append(resp.Extra, &dns.TXT{
		Hdr: dns.RR_Header{Name: vc17TagName, Rrtype: dns.TypeTXT, Class: dns.ClassINET, Ttl: 1},
		Txt: []string{who},
	})
}

func vc17TagOf(resp *dns.Msg) (who string) {
	if resp == nil {
		return ""
	}

	for _, rr := range resp.Extra {
		if txt, ok := rr.(*dns.TXT); ok && txt.Hdr.Name == vc17TagName && len(txt.Txt) == 1 {
			return txt.Txt[0]
		}
	}

	return ""
}

// vc17RW records what the handler writes to the client.
type vc17RW struct {
	msgs []*dns.Msg
}

func (w *vc17RW) LocalAddr() net.Addr {
	return &net.UDPAddr{IP: net.IP{127, 0, 0, 1}, Port: 53}
}

func (w *vc17RW) RemoteAddr() net.Addr {
	return &net.UDPAddr{IP: net.IP{127, 0, 0, 1}, Port: 12345}
}

func (w *vc17RW) WriteMsg(_ context.Context, _, resp *dns.Msg) (err error) {
	w.msgs = append(w.msgs, resp)

	return nil
}

// vc17MainState is the reference state of one main upstream.
type vc17MainState struct {
	// failed is true from a failed probe until the next successful one.
	failed bool
	// sum is the time the harness clock was advanced since the failure.
	sum time.Duration
	// f0 and f1 bound the wall-clock instant at which the real code stamped
	// the failure.
	f0, f1 time.Time
}

// vc17Env is one handler under test together with its reference model.
type vc17Env struct {
	h       *Handler
	mains   []vc17Node
	fbs     []vc17Node
	backoff time.Duration
	logMu   sync.Mutex
	log     []vc17Call

	// onMainAsked, if set, is told which main a checked query went to.
	onMainAsked func(idx int)

	// Reference state.
	active []bool
	st     []vc17MainState

	// hist is the compact history, used in failure messages and as identity.
	hist strings.Builder

	// classes reached by this history.
	classes map[string]struct{}
	// nontrivial is set once a down->up decision around the backoff was made.
	nontrivial bool
}

// vc17Fail is how the model reports a verdict.
type vc17Fail func(format string, args ...any)

// vc17ErrAmbiguous is returned when the wall clock moved across a backoff
// boundary between the harness's writes and the code's reads, so that the
// reference cannot tell which side the code saw.
type vc17ErrAmbiguous struct{ what string }

func (e *vc17ErrAmbiguous) Error() string { return e.what }

func vc17NewHandler(mainConfs, fbConfs []*UpstreamPlainConfig, backoff, initDur time.Duration, tmpl string, seed uint64) (h *Handler) {
	h = NewHandler(&HandlerConfig{
		Logger:                     slogutil.NewDiscardLogger(),
		HealthcheckDomainTmpl:      tmpl,
		UpstreamsAddresses:         mainConfs,
		FallbackAddresses:          fbConfs,
		HealthcheckBackoffDuration: backoff,
		HealthcheckInitDuration:    initDur,
	})
	// The handler's own selection randomness is made a function of the drawn
	// seed so that every history replays.
	src := &rand.LockedSource{}
	src.Seed(seed)
	h.rand = rand.New(src)

	return h
}

// vc17Install puts the nodes into the upstream slots of h (built with the
// right numbers of mains and fallbacks).  closeOld closes the clients that
// were in the slots; it is false when the nodes wrap those very clients.
func vc17Install(h *Handler, mains, fbs []vc17Node, closeOld bool) {
	for i, m := range mains {
		old := h.upstreams[i].upstream
		if closeOld {
			_ = old.Close()
		}

		h.upstreams[i].upstream = m
		// The eligible set may already have been reduced by the initial
		// health check: replace by identity, not by position.
		for j, a := range h.activeUpstreams {
			if a == old {
				h.activeUpstreams[j] = m
			}
		}
	}

	for i, f := range fbs {
		if closeOld {
			_ = h.fallbacks[i].Close()
		}

		h.fallbacks[i] = f
	}
}

func vc17NewEnv(h *Handler, mains, fbs []vc17Node, backoff time.Duration) (e *vc17Env) {
	e = &vc17Env{
		h:       h,
		mains:   mains,
		fbs:     fbs,
		backoff: backoff,
		active:  make([]bool, len(mains)),
		st:      make([]vc17MainState, len(mains)),
		classes: map[string]struct{}{},
	}

	for i := range e.active {
		e.active[i] = true
	}

	return e
}

func (e *vc17Env) class(c string) { e.classes[c] = struct{}{} }

func (e *vc17Env) record(c vc17Call) {
	e.logMu.Lock()
	defer e.logMu.Unlock()

	e.log = append(e.log, c)
}

func (e *vc17Env) activeCount() (n int) {
	for _, a := range e.active {
		if a {
			n++
		}
	}

	return n
}

func vc17SatAdd(a, b time.Duration) time.Duration {
	if b > 0 && a > math.MaxInt64-b {
		return math.MaxInt64
	}

	return a + b
}

// advance moves the harness clock: every failure timestamp kept by the real
// handler is rewound by d.  Zero timestamps mean "healthy" and are left alone.
func (e *vc17Env) advance(d time.Duration) {
	fmt.Fprintf(&e.hist, "A%s ", d)
	for _, s := range e.h.upstreams {
		if !s.lastFailedHealthcheck.IsZero() {
			s.lastFailedHealthcheck = s.lastFailedHealthcheck.Add(-d)
		}
	}

	for i := range e.st {
		if e.st[i].failed {
			e.st[i].sum = vc17SatAdd(e.st[i].sum, d)
		}
	}
}

func (e *vc17Env) describe() string {
	var b strings.Builder
	fmt.Fprintf(&b, "mains=%d fallbacks=%d backoff=%s history: %s\nmodel:", len(e.mains), len(e.fbs), e.backoff, e.hist.String())
	for i, m := range e.mains {
		fmt.Fprintf(&b, " %s{cat=%s active=%v failed=%v sum=%s}", m.vc17Name(), m.vc17Cat(), e.active[i], e.st[i].failed, e.st[i].sum)
	}

	for _, f := range e.fbs {
		fmt.Fprintf(&b, " %s{cat=%s}", f.vc17Name(), f.vc17Cat())
	}

	if e.h == nil {
		return b.String()
	}

	b.WriteString("\nreal: active=[")
	for _, u := range e.h.activeUpstreams {
		b.WriteString(u.String() + " ")
	}

	b.WriteString("]")
	for _, s := range e.h.upstreams {
		fmt.Fprintf(&b, " %s.lastFailed.IsZero=%v", s.upstream, s.lastFailedHealthcheck.IsZero())
	}

	return b.String()
}

func vc17LogString(calls []vc17Call) string {
	var b strings.Builder
	for _, c := range calls {
		k := "query"
		if c.probe {
			k = "probe"
		}

		fmt.Fprintf(&b, "%s<-%s(%s) ", c.who, k, c.qname)
	}

	return b.String()
}

// refresh runs one health-check round on the real handler and on the
// reference, and compares.
func (e *vc17Env) refresh(ctx context.Context, fail vc17Fail) (err error) {
	e.hist.WriteString("R ")

	return e.refreshRun(fail, func() { _ = e.h.Refresh(ctx) }, true)
}

// refreshRun runs one health-check round of the real code through run and the
// same round on the reference, and compares.  run may be the handler's
// construction with its initial health check, in which case it sets e.h and
// the calls are not recorded (observable is false).
func (e *vc17Env) refreshRun(fail vc17Fail, run func(), observable bool) (err error) {
	e.log = e.log[:0]

	t2 := time.Now()
	run()
	t3 := time.Now()

	probes := make([]int, len(e.mains))
	for _, c := range e.log {
		if !c.probe {
			fail("a health-check round sent a non-probe query %q to %s\n%s", c.qname, c.who, e.describe())
		}

		if c.main {
			probes[c.idx]++
		}
	}

	if len(e.fbs) == 0 {
		// Without fallbacks main upstreams are never taken out of rotation,
		// whatever their health.
		e.class("no-fallbacks-refresh")
		for _, m := range e.mains {
			if m.vc17Cat() != vc17CatReplyOK {
				e.class("no-fallbacks-refresh-with-down-main")
			}
		}

		e.checkActiveState(fail, "after a refresh without fallbacks")

		return nil
	}

	for i, m := range e.mains {
		s := &e.st[i]
		up := m.vc17Cat() == vc17CatReplyOK

		inBackoff := false
		if s.failed {
			// The code saw an age between lo and hi.
			lo := vc17SatAdd(s.sum, t2.Sub(s.f1))
			hi := vc17SatAdd(s.sum, t3.Sub(s.f0))
			switch {
			case hi < e.backoff:
				inBackoff = true
			case lo >= e.backoff:
				inBackoff = false
			default:
				return &vc17ErrAmbiguous{what: fmt.Sprintf("age of %s's failure in [%s, %s] straddles backoff %s", m.vc17Name(), lo, hi, e.backoff)}
			}

			if up {
				e.nontrivial = true
				left := e.backoff - s.sum
				switch {
				case inBackoff:
					e.class("blocked-in-backoff-while-up")
					if left <= time.Second {
						e.class("boundary-just-before-blocked")
					}
				case e.backoff == 0:
					e.class("recovered-zero-backoff")
				default:
					e.class("recovered-after-backoff")
					if s.sum == e.backoff {
						e.class("boundary-exact-recovered")
					} else if -left <= time.Second {
						e.class("boundary-just-after-recovered")
					}
				}
			} else if !inBackoff {
				e.class("refail-after-backoff")
			}
		}

		if inBackoff {
			// Not used again until the backoff has elapsed.  The documentation
			// allows the probe to be sent anyway ("the healthcheck is still
			// performed, and each failed check advances the backoff"), so a
			// probe here is not a verdict; only a return to rotation is.
			e.active[i] = false
			if probes[i] > 0 {
				e.class("probe-sent-in-backoff")
				if !up {
					*s = vc17MainState{failed: true, f0: t2, f1: t3}
				}
			}

			continue
		}

		if observable && probes[i] == 0 {
			fail("main %s is not in backoff but was not probed by the health-check round\n%s", m.vc17Name(), e.describe())
		}

		wasFailed := s.failed
		if up {
			e.active[i] = true
			*s = vc17MainState{}
		} else {
			if m.vc17Cat() == vc17CatReplyRcode {
				e.class("probe-failed-by-rcode")
			}

			e.active[i] = false
			*s = vc17MainState{failed: true, f0: t2, f1: t3}
		}

		// The anchored state: zero iff the last health check succeeded, else
		// the time of that failed check.
		lf := e.h.upstreams[i].lastFailedHealthcheck
		switch {
		case up && !lf.IsZero():
			fail("main %s passed its probe (previously failed: %v) but its failure time was not reset\n%s", m.vc17Name(), wasFailed, e.describe())
		case !up && (lf.Before(t2) || lf.After(t3)):
			fail("main %s failed its probe but its failure time %s is not the time of this round [%s, %s]\n%s", m.vc17Name(), lf, t2, t3, e.describe())
		}
	}

	n := e.activeCount()
	switch {
	case n == 0:
		e.class("all-mains-out")
	case n < len(e.mains):
		e.class("partial-active")
	}

	e.checkActiveState(fail, "after a refresh")

	return nil
}

// checkActiveState compares the handler's set of eligible mains with the
// reference.
func (e *vc17Env) checkActiveState(fail vc17Fail, when string) {
	got := make([]int, len(e.mains))
	e.h.activeUpstreamsMu.RLock()
	defer e.h.activeUpstreamsMu.RUnlock()

	for _, u := range e.h.activeUpstreams {
		found := false
		for i, m := range e.mains {
			if u == Upstream(m) {
				got[i]++
				found = true
			}
		}

		if !found {
			fail("%s: eligible set contains %s, which is not a main upstream\n%s", when, u, e.describe())
		}
	}

	for i, m := range e.mains {
		want := 0
		if e.active[i] {
			want = 1
		}

		if got[i] != want {
			fail("%s: main %s occurs %d times in the eligible set, reference says %d\n%s", when, m.vc17Name(), got[i], want, e.describe())
		}
	}
}

// query sends one query through the real handler and checks where it went and
// what the client got.
func (e *vc17Env) query(ctx context.Context, fail vc17Fail, name string, qtype uint16, id uint16) {
	fmt.Fprintf(&e.hist, "Q ")
	e.log = e.log[:0]

	rw, err := e.send(ctx, name, qtype, id)
	e.checkQuery(fail, name, qtype, id, e.log, rw, err)
}

// send puts one query through the real handler.
func (e *vc17Env) send(ctx context.Context, name string, qtype uint16, id uint16) (rw *vc17RW, err error) {
	req := &dns.Msg{
		MsgHdr:   dns.MsgHdr{Id: id, RecursionDesired: true},
		Question: []dns.Question{{Name: name, Qtype: qtype, Qclass: dns.ClassINET}},
	}
	rw = &vc17RW{}
	err = e.h.ServeDNS(ctx, rw, req)

	return rw, err
}

// burst sends k queries with distinct names at the same time and checks each
// of them like a single query; the behaviours of the upstreams do not change
// during the burst.
func (e *vc17Env) burst(ctx context.Context, fail vc17Fail, qtype uint16, ids []uint16) {
	fmt.Fprintf(&e.hist, "B%d ", len(ids))
	e.log = e.log[:0]

	type result struct {
		rw  *vc17RW
		err error
	}

	results := make([]result, len(ids))
	names := make([]string, len(ids))
	var wg sync.WaitGroup
	for i := range ids {
		names[i] = fmt.Sprintf("b%d.burst.example.", i)
		wg.Add(1)
		go func() {
			defer wg.Done()

			rw, err := e.send(ctx, names[i], qtype, ids[i])
			results[i] = result{rw: rw, err: err}
		}()
	}

	wg.Wait()

	all := append([]vc17Call(nil), e.log...)
	for i := range ids {
		var calls []vc17Call
		for _, c := range all {
			if c.qname == names[i] {
				calls = append(calls, c)
			}
		}

		e.checkQuery(fail, names[i], qtype, ids[i], calls, results[i].rw, results[i].err)
	}

	for _, c := range all {
		if !strings.HasSuffix(c.qname, ".burst.example.") {
			fail("an upstream received %q during a burst of other queries\n%s", c.qname, e.describe())
		}
	}
}

// checkQuery checks where one query went (calls, in order) and what the client
// got.
func (e *vc17Env) checkQuery(fail vc17Fail, name string, qtype uint16, id uint16, calls []vc17Call, rw *vc17RW, err error) {
	where := func() string {
		return fmt.Sprintf("query %q id=%d: calls: %s; err=%v; written=%d (%s)\n%s",
			name, id, vc17LogString(calls), err, len(rw.msgs), vc17TagOf(vc17First(rw.msgs)), e.describe())
	}

	for _, c := range calls {
		if c.probe || c.qname != name || c.qtype != qtype {
			fail("an upstream received something other than the client's question: %+v\n%s", c, where())
		}
	}

	if len(rw.msgs) > 1 {
		fail("more than one response written\n%s", where())
	}

	// expectFrom checks the outcome given the upstream whose result decides.
	expectFrom := func(n vc17Node) {
		if n.vc17Cat().replies() {
			if err != nil || len(rw.msgs) != 1 {
				fail("%s replied but the client did not get exactly that reply\n%s", n.vc17Name(), where())
			}

			resp := rw.msgs[0]
			if resp == nil || vc17TagOf(resp) != n.vc17Name() {
				fail("%s's reply decides but the client got the reply of %q\n%s", n.vc17Name(), vc17TagOf(resp), where())
			}

			if resp.Id != id || len(resp.Question) != 1 || !strings.EqualFold(resp.Question[0].Name, name) || resp.Question[0].Qtype != qtype {
				fail("reply does not match the query\n%s", where())
			}

			if n.vc17Cat() == vc17CatReplyRcode {
				e.class("rcode-reply-passed-through")
			}

			return
		}

		if err == nil || len(rw.msgs) != 0 {
			fail("%s did not reply (%s) but the client did not get a failure\n%s", n.vc17Name(), n.vc17Cat(), where())
		}
	}

	var mainCalls, fbCalls []vc17Call
	for _, c := range calls {
		if c.main {
			mainCalls = append(mainCalls, c)
		} else {
			fbCalls = append(fbCalls, c)
		}
	}

	if e.activeCount() == 0 {
		// No healthy main: straight to one fallback, once.
		if len(e.fbs) == 0 {
			fail("reference has no eligible main and no fallbacks: harness error\n%s", where())
		}

		e.class("all-down-query-to-fallback")
		if len(mainCalls) != 0 {
			fail("no main is eligible but %s received the query\n%s", mainCalls[0].who, where())
		}

		if len(fbCalls) != 1 {
			fail("no main is eligible: want exactly one fallback attempt, got %d\n%s", len(fbCalls), where())
		}

		f := e.fbs[fbCalls[0].idx]
		if !f.vc17Cat().replies() {
			e.class("all-down-fallback-fails")
		}

		expectFrom(f)

		return
	}

	if len(mainCalls) != 1 {
		fail("want exactly one attempt on a main upstream, got %d\n%s", len(mainCalls), where())
	}

	if !calls[0].main {
		fail("a fallback was asked before the main upstream\n%s", where())
	}

	mi := mainCalls[0].idx
	if e.onMainAsked != nil {
		e.onMainAsked(mi)
	}

	if !e.active[mi] {
		fail("main %s is out of rotation but received the query\n%s", e.mains[mi].vc17Name(), where())
	}

	m := e.mains[mi]
	switch cat := m.vc17Cat(); cat {
	case vc17CatReplyOK, vc17CatReplyRcode:
		if len(fbCalls) != 0 {
			fail("main %s replied but a fallback was asked too\n%s", m.vc17Name(), where())
		}

		expectFrom(m)
	case vc17CatNetErr:
		if len(e.fbs) == 0 {
			e.class("neterr-no-fallbacks")
			expectFrom(m)

			return
		}

		if len(fbCalls) != 1 {
			fail("main %s failed with a network error: want exactly one fallback attempt, got %d\n%s", m.vc17Name(), len(fbCalls), where())
		}

		f := e.fbs[fbCalls[0].idx]
		if f.vc17Cat().replies() {
			e.class("neterr-fallback-ok")
		} else {
			e.class("neterr-fallback-fails")
		}

		expectFrom(f)
	case vc17CatPlainErr:
		e.class("plainerr-no-fallback")
		if len(fbCalls) != 0 {
			fail("main %s failed with a non-network error but a fallback was asked\n%s", m.vc17Name(), where())
		}

		expectFrom(m)
	case vc17CatNil, vc17CatEOF:
		// The statement does not say whether an absent reply without an error,
		// or a closed connection, goes to a fallback; only the client-visible
		// part is decided.
		switch {
		case cat == vc17CatNil:
			e.class("nil-reply")
		case len(fbCalls) == 0 && len(e.fbs) > 0:
			e.class("eof-main-not-failed-over")
		default:
			e.class("eof-main-failed-over-or-no-fallbacks")
		}

		if len(fbCalls) > 1 {
			fail("more than one fallback attempt\n%s", where())
		}

		if len(fbCalls) == 1 {
			expectFrom(e.fbs[fbCalls[0].idx])
		} else {
			expectFrom(m)
		}
	}
}

func vc17First(ms []*dns.Msg) *dns.Msg {
	if len(ms) == 0 {
		return nil
	}

	return ms[0]
}

func vc17IsProbeName(n string) bool {
	return strings.HasSuffix(strings.ToLower(n), vc17ProbeSuffix)
}
