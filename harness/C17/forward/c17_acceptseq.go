//go:build verif

package forward

// C17, part "acceptseq": several exchanges in a row through ONE real
// UpstreamPlain (so that pooled connections and pooled buffers are reused),
// each query a near miss of the previous one, against a server that also
// replies with the previous query's answer, pads replies to the buffer limits,
// writes TCP replies in two pieces and sends extra datagrams.  The verdict is
// computed from the bytes the server really sent.

import (
	"context"
	"fmt"
	"strings"
	"sync"
	"testing"
	"time"

	"github.com/miekg/dns"
	"pgregory.net/rapid"
	"verif.local/harness/vstat"
)

// vc17SeqSpec is a scripted reply of the sequence check.
type vc17SeqSpec struct {
	vc17Spec

	// Prev: the reply is built for the previous exchange's query (a reply
	// that arrives late, or an upstream that mixes its clients up).
	Prev bool `json:"prev,omitempty"`
	// PadTo: the reply is padded with a TXT record to exactly this size.
	PadTo int `json:"pad_to,omitempty"`
	// Split: a TCP reply is written in two pieces cut at this offset
	// (counted from the start of the length prefix).
	Split int `json:"split,omitempty"`
	// Dup: a UDP reply is sent twice.
	Dup bool `json:"dup,omitempty"`
	// WrongFirst: a UDP reply is preceded by a copy with another ID.
	WrongFirst bool `json:"wrong_first,omitempty"`
}

// vc17PadTo pads r with one TXT record owned by the root so that its packed
// size is exactly target.
func vc17PadTo(r *dns.Msg, target int) (err error) {
	r.Compress = false
	need := target - r.Len() - 11
	if need < 1 {
		return fmt.Errorf("cannot pad a message of %d octets to %d", r.Len(), target)
	}

	txt := &dns.TXT{Hdr: dns.RR_Header{Name: ".", Rrtype: dns.TypeTXT, Class: dns.ClassINET, Ttl: 1}}
	for need > 0 {
		c := min(need, 256)
		txt.Txt = append(txt.Txt, strings.Repeat("p", c-1))
		need -= c
	}

	r.Extra = append(r.Extra, txt)

	return nil
}

// vc17SeqCraft builds the messages of one scripted reply.  marker is put into
// every message (plus a running number for the extra ones).
func vc17SeqCraft(s vc17SeqSpec, network string, reqBytes, prevReq []byte, marker func() string) (o vc17Out, sent map[string][]byte, err error) {
	sent = map[string][]byte{}
	src := reqBytes
	if s.Prev && prevReq != nil {
		src = prevReq
	}

	build := func(spec vc17Spec) (b []byte, m string, err error) {
		m = marker()
		switch spec.Kind {
		case "garbage", "short", "close":
			b, _, err = vc17CraftErr(spec, src, m)

			return b, m, err
		}

		// Structured: build the message, pad, pack.
		full, _, err := vc17CraftErr(spec, src, m)
		if err != nil || s.PadTo == 0 {
			return full, m, err
		}

		r := &dns.Msg{}
		if err = r.Unpack(full); err != nil {
			return nil, m, err
		}

		if err = vc17PadTo(r, s.PadTo); err != nil {
			return nil, m, err
		}

		b, err = r.Pack()
		if err == nil && len(b) != s.PadTo {
			err = fmt.Errorf("padded to %d octets instead of %d", len(b), s.PadTo)
		}

		return b, m, err
	}

	if s.Kind == "close" {
		return vc17Out{closeConn: true}, sent, nil
	}

	if network == "udp" && s.WrongFirst {
		wrong := s.vc17Spec
		wrong.Kind, wrong.IDMask = "wrongid", 0x0001
		b, m, berr := build(wrong)
		if berr != nil {
			return o, sent, berr
		}

		o.msgs, sent[m] = append(o.msgs, b), b
	}

	b, m, err := build(s.vc17Spec)
	if err != nil {
		return o, sent, err
	}

	o.msgs, sent[m] = append(o.msgs, b), b
	if network == "udp" && s.Dup {
		b2, m2, derr := build(s.vc17Spec)
		if derr != nil {
			return o, sent, derr
		}

		o.msgs, sent[m2] = append(o.msgs, b2), b2
	}

	if network == "tcp" {
		o.split = s.Split
	}

	return o, sent, nil
}

func vc17DrawSeqSpec(t *rapid.T, label, name string, qtype uint16, tcp, first bool) (s vc17SeqSpec) {
	kinds := []string{"exact", "exact", "exact", "exact", "case", "wrongid", "othername", "othertype", "twoq", "garbage", "short"}
	if tcp {
		kinds = append(kinds, "close")
	}

	s.Kind = rapid.SampledFrom(kinds).Draw(t, label+"Kind")
	s.TC = !tcp && rapid.IntRange(0, 4).Draw(t, label+"TC") == 0
	switch s.Kind {
	case "wrongid":
		s.IDMask = rapid.SampledFrom([]uint16{1, 0x8000, 0xffff}).Draw(t, label+"IDMask")
	case "othername":
		s.AltName = "other.example."
		if name != "." && rapid.Bool().Draw(t, label+"OneBit") {
			b := []byte(name)
			b[0] ^= 0x01
			s.AltName = string(b)
		}
	case "othertype":
		s.AltType = qtype + 1
	case "garbage":
		s.Garbage = rapid.SliceOfN(rapid.Byte(), vc17MinMsg, 60).Draw(t, label+"Garbage")
		s.IDMask = uint16(rapid.IntRange(0, 1).Draw(t, label+"GarbageKeepsOwnID"))
	case "short":
		s.Cut = rapid.IntRange(0, vc17MinMsg-1).Draw(t, label+"Cut")
	}

	if !first {
		s.Prev = rapid.IntRange(0, 2).Draw(t, label+"Prev") == 0
	}

	if rapid.IntRange(0, 2).Draw(t, label+"Pad") == 0 {
		if tcp {
			s.PadTo = rapid.SampledFrom([]int{vc17UDPLimit, vc17UDPLimit + 1, 16384, dns.MaxMsgSize - 1, dns.MaxMsgSize}).Draw(t, label+"PadTo")
		} else {
			s.PadTo = rapid.SampledFrom([]int{512, 513, vc17UDPLimit - 1, vc17UDPLimit, vc17UDPLimit, vc17UDPLimit + 1, 6000}).Draw(t, label+"PadTo")
		}
	}

	if tcp {
		if rapid.IntRange(0, 2).Draw(t, label+"SplitKind") == 0 {
			s.Split = rapid.SampledFrom([]int{1, 2, 3, 14, 19, 40}).Draw(t, label+"Split")
		}
	} else {
		switch rapid.IntRange(0, 7).Draw(t, label+"Extra") {
		case 0:
			s.Dup = true
		case 1:
			s.WrongFirst = true
		}
	}

	return s
}

// vc17NearMiss derives the next query from the previous one by changing
// exactly one component (or nothing).
func vc17NearMiss(t *rapid.T, prev *dns.Msg) (next *dns.Msg, what string) {
	next = prev.Copy()
	q := &next.Question[0]
	what = rapid.SampledFrom([]string{"verbatim", "id+1", "id=0", "id-high-bit", "type", "name-one-bit", "name-case", "name-child", "edns-toggle"}).Draw(t, "change")
	switch what {
	case "id+1":
		next.Id++
	case "id=0":
		if next.Id == 0 {
			next.Id = 0xffff
		} else {
			next.Id = 0
		}
	case "id-high-bit":
		next.Id ^= 0x8000
	case "type":
		if q.Qtype == dns.TypeA {
			q.Qtype = dns.TypeAAAA
		} else {
			q.Qtype = dns.TypeA
		}
	case "name-one-bit":
		if q.Name == "." {
			q.Name = "a."
		} else {
			b := []byte(q.Name)
			b[0] ^= 0x01
			q.Name = string(b)
		}
	case "name-case":
		q.Name = vc17FlipCase(q.Name)
	case "name-child":
		if q.Name == "." {
			q.Name = "a."
		} else {
			q.Name = "a." + q.Name
		}
	case "edns-toggle":
		if next.IsEdns0() != nil {
			next.Extra = nil
		} else {
			next.SetEdns0(1232, false)
		}
	}

	return next, what
}

func TestVerifC17AcceptSeq(t *testing.T) {
	st := vstat.New("C17", "forward.acceptseq",
		"rapid sequences of 2-4 exchanges through one real UpstreamPlain (any/udp/tcp, timeout 0 or 5s) whose pooled connections and buffers are reused; every query after the first is the previous one with exactly one component changed (ID+1, ID 0, ID high bit, type, one bit of the name, letter case, child name, EDNS on/off) or verbatim; scripted replies as in 'accept' plus: the reply to the PREVIOUS query, replies padded to 512/513/4095/4096/4097/6000 octets (UDP) and 4096/4097/16384/65534/65535 (TCP), TCP replies written in two pieces, duplicated UDP datagrams, a wrong-ID datagram before the right one; verdict from the bytes really sent; non-trivial = some reply is not the plain exact one, distinct by the whole sequence",
		"near-miss-id-stale-reply-rejected", "near-miss-type-stale-reply-rejected", "near-miss-name-stale-reply-rejected",
		"near-miss-case-stale-reply-accepted", "verbatim-stale-reply-accepted", "udp-reply-of-4096-accepted", "udp-reply-of-4095-accepted",
		"udp-reply-over-4096", "tcp-reply-of-65535-accepted", "tcp-reply-in-two-pieces-accepted", "tcp-length-prefix-split-accepted",
		"udp-wrong-id-then-right", "udp-duplicate-datagram", "pooled-tcp-conn-reused", "pooled-udp-conn-reused", "timeout-zero")
	st.Finish(t)

	rapid.Check(t, func(t *rapid.T) {
		nw := rapid.SampledFrom([]Network{NetworkAny, NetworkAny, NetworkTCP, NetworkUDP}).Draw(t, "network")
		timeout := rapid.SampledFrom([]time.Duration{vc17Timeout, vc17Timeout, 0}).Draw(t, "timeout")

		srv := &vc17Srv{}
		if err := srv.start(); err != nil {
			st.Class("bind-failed-discarded")
			t.Skipf("binding loopback sockets: %v", err)
		}
		defer srv.close()

		u := NewUpstreamPlain(&UpstreamPlainConfig{Network: nw, Address: srv.addr(), Timeout: timeout})
		defer func() { _ = u.Close() }()

		var (
			mu       sync.Mutex
			serial   int
			us, cs   vc17SeqSpec
			prevReq  []byte
			allSent  = map[string][]byte{}
			nowUDP   []string
			nowTCP   []string
			craftErr error
		)

		srv.setReplyN(func(network string, req []byte) vc17Out {
			mu.Lock()
			defer mu.Unlock()

			spec := us
			if network == "tcp" {
				spec = cs
			}

			var order []string
			o, sent, err := vc17SeqCraft(spec, network, req, prevReq, func() string {
				serial++
				m := fmt.Sprintf("%s#%d", network, serial)
				order = append(order, m)

				return m
			})
			if err != nil {
				craftErr = err

				return vc17Out{closeConn: true}
			}

			for _, m := range order {
				if b, ok := sent[m]; ok {
					allSent[m] = b
					if network == "udp" {
						nowUDP = append(nowUDP, m)
					} else {
						nowTCP = append(nowTCP, m)
					}
				}
			}

			return o
		})

		name := rapid.SampledFrom(vc17AcceptNames).Draw(t, "name")
		qtype := rapid.SampledFrom(vc17QTypes).Draw(t, "qtype")
		req := &dns.Msg{
			MsgHdr:   dns.MsgHdr{Id: rapid.OneOf(rapid.Uint16(), rapid.SampledFrom([]uint16{0, 1, 0xffff})).Draw(t, "id"), RecursionDesired: true},
			Question: []dns.Question{{Name: name, Qtype: qtype, Qclass: dns.ClassINET}},
		}
		if rapid.Bool().Draw(t, "edns") {
			req.SetEdns0(4096, false)
		}

		var hist strings.Builder
		fmt.Fprintf(&hist, "network=%q timeout=%s", nw, timeout)
		classes := map[string]struct{}{}
		if timeout == 0 {
			classes["timeout-zero"] = struct{}{}
		}

		nontrivial := false
		// dirty: an extra datagram may still sit in the client's pooled UDP
		// socket, so the first datagram of a later exchange need not be the
		// first one the client reads.
		dirty := false
		udpOK, tcpOK := 0, 0

		n := rapid.IntRange(2, 4).Draw(t, "exchanges")
		for i := range n {
			change := "first"
			if i > 0 {
				var next *dns.Msg
				next, change = vc17NearMiss(t, req)
				pb, _ := req.Pack()
				mu.Lock()
				prevReq = pb
				mu.Unlock()
				req = next
			}

			q := req.Question[0]
			u1 := vc17DrawSeqSpec(t, fmt.Sprintf("udp%d", i), q.Name, q.Qtype, false, i == 0)
			c1 := vc17DrawSeqSpec(t, fmt.Sprintf("tcp%d", i), q.Name, q.Qtype, true, i == 0)
			mu.Lock()
			us, cs, nowUDP, nowTCP = u1, c1, nil, nil
			mu.Unlock()

			fmt.Fprintf(&hist, "\n  #%d %s: query %q type %d id %d edns %v; udp %+v; tcp %+v", i, change, q.Name, q.Qtype, req.Id, req.IsEdns0() != nil, u1, c1)
			if u1.Kind != "exact" || c1.Kind != "exact" || u1.Prev || c1.Prev || u1.PadTo+c1.PadTo+c1.Split > 0 || u1.Dup || u1.WrongFirst {
				nontrivial = true
			}

			start := time.Now()
			resp, _, err := u.Exchange(context.Background(), req)
			took := time.Since(start)

			mu.Lock()
			cerr := craftErr
			sentU, sentC := append([]string(nil), nowUDP...), append([]string(nil), nowTCP...)
			mu.Unlock()
			sentBytes := func(m string) []byte {
				mu.Lock()
				defer mu.Unlock()

				return allSent[m]
			}
			if cerr != nil {
				fmt.Println("VERIF-INCONCLUSIVE: harness could not build a scripted reply: " + cerr.Error())
				t.Fatalf("harness: %v\n%s", cerr, hist.String())
			}

			tag := vc17TagOf(resp)
			fail := func(format string, args ...any) {
				full := fmt.Sprintf("%s\nexchange #%d: err=%v accepted=%q; datagrams sent %v, tcp messages sent %v\n%s",
					fmt.Sprintf(format, args...), i, err, tag, sentU, sentC, hist.String())
				if took > vc17Timeout/2 {
					fmt.Println("VERIF-INCONCLUSIVE: an exchange took " + took.String() + "; " + full)
				}

				t.Fatalf("%s", full)
			}

			parse := func(m string) (msg *dns.Msg) {
				msg = &dns.Msg{}
				if msg.Unpack(sentBytes(m)) != nil {
					return nil
				}

				return msg
			}
			// valid: the message, as sent, is a complete DNS message (header,
			// the whole question) that matches the query.  (The codec used for
			// parsing tolerates a question cut after its type.)
			valid := func(m string) bool {
				msg := parse(m)
				if msg == nil || len(msg.Question) != 1 {
					return false
				}

				qlen := len(msg.Question[0].Name) + 1
				if msg.Question[0].Name == "." {
					qlen = 1
				}

				return len(sentBytes(m)) >= 12+qlen+4 && vc17Matches(req, msg)
			}
			among := func(ms []string) bool {
				for _, m := range ms {
					if m == tag {
						return true
					}
				}

				return false
			}

			// Accepted only if ID, question name and type match, and only a
			// message that some server really sent.
			if err == nil {
				if !vc17Matches(req, resp) {
					fail("a reply that does not match the query was accepted: %v", resp)
				}

				mu.Lock()
				_, known := allSent[tag]
				mu.Unlock()
				if !known {
					fail("the accepted message was never sent")
				}

				if !valid(tag) {
					fail("the accepted message, as it was sent, does not match the query")
				}
			}

			lastTCPValid := len(sentC) > 0 && valid(sentC[len(sentC)-1])
			mustTCP := func() {
				if lastTCPValid && (err != nil || !among(sentC)) {
					fail("a valid reply was sent over TCP and decides, but was not returned")
				}
			}

			// plainValid: the scripted reply is, by construction, a complete
			// matching reply to this very query.
			plainValid := func(sp vc17SeqSpec) bool {
				return sp.vc17Spec.valid() && !sp.Prev && !sp.TC && sp.PadTo <= vc17UDPLimit
			}

			switch {
			case nw == NetworkTCP && len(sentC) == 0 && plainValid(c1), nw != NetworkTCP && !dirty && len(sentU) == 0 && plainValid(u1):
				// The server is up and answers everything it gets.
				if err != nil {
					fail("the upstream would have given a valid reply but never received the query")
				}
			case nw == NetworkTCP:
				mustTCP()
			case dirty || len(sentU) == 0 || !valid(sentU[0]):
				// Not decided beyond the checks above.
			case len(sentBytes(sentU[0])) > vc17UDPLimit:
				// More than the documented UDP buffer: not decided.
			case !parse(sentU[0]).Truncated:
				if err != nil || tag != sentU[0] {
					fail("the first datagram is a valid complete reply but was not returned")
				}
			case nw == NetworkAny:
				mustTCP()
			default:
				if err != nil {
					fail("UDP-only upstream got a valid truncated reply but failed")
				}
			}

			// Classes.
			if err == nil {
				b := sentBytes(tag)
				from := tag[:3]
				switch {
				case from == "udp" && len(b) == vc17UDPLimit:
					classes["udp-reply-of-4096-accepted"] = struct{}{}
				case from == "udp" && len(b) == vc17UDPLimit-1:
					classes["udp-reply-of-4095-accepted"] = struct{}{}
				case from == "tcp" && len(b) == dns.MaxMsgSize:
					classes["tcp-reply-of-65535-accepted"] = struct{}{}
				}

				if from == "tcp" && c1.Split > 0 {
					classes["tcp-reply-in-two-pieces-accepted"] = struct{}{}
					if c1.Split == 1 {
						classes["tcp-length-prefix-split-accepted"] = struct{}{}
					}
				}

				if from == "udp" {
					udpOK++
				} else {
					tcpOK++
				}

				stale := from == "udp" && u1.Prev || from == "tcp" && c1.Prev
				switch {
				case stale && change == "name-case":
					classes["near-miss-case-stale-reply-accepted"] = struct{}{}
				case stale && (change == "verbatim" || change == "edns-toggle"):
					classes["verbatim-stale-reply-accepted"] = struct{}{}
				}
			}

			if len(sentU) > 0 && len(sentBytes(sentU[0])) > vc17UDPLimit {
				classes["udp-reply-over-4096"] = struct{}{}
			}

			// A stale reply that was consulted and is an otherwise exact reply
			// to the previous query.
			staleU := nw != NetworkTCP && len(sentU) > 0 && u1.Prev && u1.Kind == "exact" && !u1.WrongFirst && !dirty
			staleC := len(sentC) > 0 && c1.Prev && c1.Kind == "exact"
			if (staleU && !valid(sentU[0])) || (staleC && !valid(sentC[0])) {
				switch change {
				case "id+1", "id=0", "id-high-bit":
					classes["near-miss-id-stale-reply-rejected"] = struct{}{}
				case "type":
					classes["near-miss-type-stale-reply-rejected"] = struct{}{}
				case "name-one-bit", "name-child":
					classes["near-miss-name-stale-reply-rejected"] = struct{}{}
				}
			}

			if len(sentU) > 0 && u1.WrongFirst {
				classes["udp-wrong-id-then-right"] = struct{}{}
			}

			if len(sentU) > 1 {
				if u1.Dup {
					classes["udp-duplicate-datagram"] = struct{}{}
				}

				dirty = true
			}

			if tcpOK >= 2 {
				classes["pooled-tcp-conn-reused"] = struct{}{}
			}

			if udpOK >= 2 {
				classes["pooled-udp-conn-reused"] = struct{}{}
			}
		}

		nt := ""
		if nontrivial {
			nt = hist.String()
		}

		cls := make([]string, 0, len(classes))
		for c := range classes {
			cls = append(cls, c)
		}

		st.Case(nt, cls...)
		if nontrivial && st.WantSample() {
			st.Sample(hist.String())
		}
	})
}
