//go:build verif

package forward

// C17, part "history": rapid-generated interleavings of queries, health-check
// rounds, behaviour switches and clock steps against scripted upstreams.

import (
	"context"
	"errors"
	"fmt"
	"io"
	"net"
	"os"
	"syscall"
	"testing"
	"time"

	"github.com/miekg/dns"
	"pgregory.net/rapid"
	"verif.local/harness/vstat"
)

// vc17Mode is a concrete behaviour of a scripted upstream.
type vc17Mode int

const (
	vc17ModeOK vc17Mode = iota
	vc17ModeServfail
	vc17ModeNXDomain
	vc17ModeRefused
	vc17ModeNetRefused  // *net.OpError{ECONNREFUSED}, wrapped like UpstreamPlain does
	vc17ModeNetTimeout  // *net.OpError{os.ErrDeadlineExceeded}, wrapped
	vc17ModeNetCustom   // a bare custom net.Error
	vc17ModeNetDial     // *net.OpError{Op: "dial"} wrapped twice
	vc17ModeNetWithResp // a network error together with a (stale) message
	vc17ModeErrID       // dns.ErrId with the mismatching reply, like readValidMsg
	vc17ModeErrQuestion // ErrQuestion, wrapped
	vc17ModeErrPlain    // errors.New
	vc17ModeNil
	vc17ModeEOF // io.EOF wrapped like UpstreamPlain.readMsg does
	vc17ModeCount
)

var vc17ModeNames = [...]string{"ok", "servfail", "nxdomain", "refused", "net-refused", "net-timeout", "net-custom", "net-dial", "net-with-resp", "err-id", "err-question", "err-plain", "nil", "eof"}

func (m vc17Mode) cat() vc17Cat {
	switch m {
	case vc17ModeOK:
		return vc17CatReplyOK
	case vc17ModeServfail, vc17ModeNXDomain, vc17ModeRefused:
		return vc17CatReplyRcode
	case vc17ModeNetRefused, vc17ModeNetTimeout, vc17ModeNetCustom, vc17ModeNetDial, vc17ModeNetWithResp:
		return vc17CatNetErr
	case vc17ModeErrID, vc17ModeErrQuestion, vc17ModeErrPlain:
		return vc17CatPlainErr
	case vc17ModeEOF:
		return vc17CatEOF
	default:
		return vc17CatNil
	}
}

// vc17NetErr is a minimal net.Error.
type vc17NetErr struct{}

func (vc17NetErr) Error() string   { return "verif: scripted network error" }
func (vc17NetErr) Timeout() bool   { return false }
func (vc17NetErr) Temporary() bool { return false }

// vc17Fake is a scripted Upstream.
type vc17Fake struct {
	env  *vc17Env
	name string
	main bool
	idx  int
	mode vc17Mode
}

func (f *vc17Fake) vc17Name() string { return f.name }
func (f *vc17Fake) vc17Cat() vc17Cat { return f.mode.cat() }
func (f *vc17Fake) String() string   { return f.name }
func (f *vc17Fake) Close() error     { return nil }

func (f *vc17Fake) Exchange(_ context.Context, req *dns.Msg) (resp *dns.Msg, nw Network, err error) {
	q := req.Question[0]
	f.env.record(vc17Call{who: f.name, main: f.main, idx: f.idx, probe: vc17IsProbeName(q.Name), qname: q.Name, qtype: q.Qtype})
	if f.main && vc17IsProbeName(q.Name) {
		defer f.env.noteProbeEnd(f.idx)
	}

	reply := func(rc int) *dns.Msg {
		r := (&dns.Msg{}).SetRcode(req, rc)
		if rc == dns.RcodeSuccess && q.Qtype == dns.TypeA {
			r.Answer = append(r.Answer, &dns.A{
				Hdr: dns.RR_Header{Name: q.Name, Rrtype: dns.TypeA, Class: dns.ClassINET, Ttl: 10},
				A:   []byte{192, 0, 2, byte(f.idx + 1)},
			})
		}

		vc17Tag(r, f.name)

		return r
	}

	addr := &net.UDPAddr{IP: net.IP{127, 0, 0, 1}, Port: 53}
	switch f.mode {
	case vc17ModeOK:
		return reply(dns.RcodeSuccess), NetworkUDP, nil
	case vc17ModeServfail:
		return reply(dns.RcodeServerFailure), NetworkUDP, nil
	case vc17ModeNXDomain:
		return reply(dns.RcodeNameError), NetworkTCP, nil
	case vc17ModeRefused:
		return reply(dns.RcodeRefused), NetworkUDP, nil
	case vc17ModeNetRefused:
		e := &net.OpError{Op: "read", Net: "udp", Addr: addr, Err: os.NewSyscallError("read", syscall.ECONNREFUSED)}

		return nil, NetworkUDP, fmt.Errorf("upstreamplain: udp network reading: %w", e)
	case vc17ModeNetTimeout:
		e := &net.OpError{Op: "read", Net: "udp", Addr: addr, Err: os.ErrDeadlineExceeded}

		return nil, NetworkUDP, fmt.Errorf("upstreamplain: udp network reading: %w", e)
	case vc17ModeNetCustom:
		return nil, NetworkUDP, vc17NetErr{}
	case vc17ModeNetDial:
		e := &net.OpError{Op: "dial", Net: "tcp", Addr: addr, Err: os.NewSyscallError("connect", syscall.ECONNREFUSED)}

		return nil, NetworkTCP, fmt.Errorf("upstreamplain: %w", fmt.Errorf("creating connection: %w", e))
	case vc17ModeNetWithResp:
		e := &net.OpError{Op: "write", Net: "tcp", Addr: addr, Err: os.NewSyscallError("write", syscall.EPIPE)}

		return reply(dns.RcodeSuccess), NetworkTCP, fmt.Errorf("upstreamplain: %w", e)
	case vc17ModeErrID:
		bad := reply(dns.RcodeSuccess)
		bad.Id = req.Id ^ 0x5555

		return bad, NetworkTCP, fmt.Errorf("upstreamplain: validating tcp response: %w", dns.ErrId)
	case vc17ModeErrQuestion:
		bad := reply(dns.RcodeSuccess)
		bad.Question[0].Name = "other.example."

		return bad, NetworkTCP, fmt.Errorf("upstreamplain: validating tcp response: %w", fmt.Errorf("%w: mismatched name %q", ErrQuestion, "other.example."))
	case vc17ModeErrPlain:
		return nil, NetworkUDP, errors.New("verif: scripted non-network error")
	case vc17ModeEOF:
		return nil, NetworkTCP, fmt.Errorf("upstreamplain: reading binary data: %w", io.EOF)
	default:
		return nil, NetworkUDP, nil
	}
}

// vc17Eps are the distances from the backoff boundary that are tried.  They
// are far above the time a refresh takes, so the reference can nearly always
// tell which side of the boundary the code saw; when it cannot the case is
// discarded (see vc17ErrAmbiguous).
var vc17Eps = []time.Duration{5 * time.Millisecond, 100 * time.Millisecond, time.Second}

var vc17Backoffs = []time.Duration{0, time.Second, 30 * time.Second, 10 * time.Minute, 24 * time.Hour}

func vc17DrawBackoff(t *rapid.T) time.Duration {
	if rapid.IntRange(0, 3).Draw(t, "backoffKind") == 0 {
		return time.Duration(rapid.Int64Range(int64(20*time.Millisecond), int64(2000*time.Hour)).Draw(t, "backoffNs"))
	}

	return rapid.SampledFrom(vc17Backoffs).Draw(t, "backoff")
}

// vc17DrawDelta draws a clock step, biased to the backoff boundary of the
// mains that are currently failed in the reference.
func vc17DrawDelta(t *rapid.T, e *vc17Env) (d time.Duration) {
	eps := rapid.SampledFrom(vc17Eps).Draw(t, "eps")
	kind := rapid.IntRange(0, 7).Draw(t, "deltaKind")

	var failed []int
	for i := range e.st {
		if e.st[i].failed && e.st[i].sum < e.backoff {
			failed = append(failed, i)
		}
	}

	switch {
	case kind <= 3 && len(failed) > 0:
		// Land on, just before or just after the boundary of one failed main.
		i := rapid.SampledFrom(failed).Draw(t, "boundaryOf")
		left := e.backoff - e.st[i].sum
		switch kind {
		case 0:
			d = left
		case 1:
			d = left - eps
		case 2:
			d = left + eps
		default:
			d = left / 2
		}
	case kind == 4:
		d = e.backoff
	case kind == 5:
		d = e.backoff - eps
	case kind == 6:
		d = eps
	default:
		d = time.Duration(rapid.Int64Range(0, 2*int64(e.backoff)+int64(time.Second)).Draw(t, "deltaNs"))
	}

	return max(d, 0)
}

var vc17QNames = []string{"example.org.", "WwW.Example.ORG.", "a.b.c.verif.test.", "hc.verif.test.example.", ".", "a."}

var vc17QTypes = []uint16{dns.TypeA, dns.TypeAAAA, dns.TypeTXT, dns.TypeHTTPS}

func vc17DrawMode(t *rapid.T, label string) vc17Mode {
	// Half of the switches go to "ok" or a network error, the two behaviours
	// the property is about; the rest is uniform.
	switch rapid.IntRange(0, 5).Draw(t, label+"Kind") {
	case 0, 1:
		return vc17ModeOK
	case 2:
		return rapid.SampledFrom([]vc17Mode{vc17ModeNetRefused, vc17ModeNetTimeout, vc17ModeNetCustom, vc17ModeNetDial, vc17ModeNetWithResp}).Draw(t, label)
	default:
		return vc17Mode(rapid.IntRange(0, int(vc17ModeCount)-1).Draw(t, label))
	}
}

func TestVerifC17History(t *testing.T) {
	st := vstat.New("C17", "forward.history",
		"rapid histories (1-3 mains, 0-2 fallbacks, backoff 0..2000h; ops: query (with or without EDNS, names incl. the root), health-check round, health-check round with 1-4 queries in flight, behaviour switch among 14 scripted behaviours, clock step biased to backoff-eps/backoff/backoff+eps of a failed main) against a reference fail-over state machine; non-trivial = the history contains a health-check round that finds a previously failed main up again (before or after its backoff), distinct by the whole history",
		"recovered-after-backoff", "blocked-in-backoff-while-up", "boundary-exact-recovered", "boundary-just-before-blocked",
		"all-down-query-to-fallback", "all-down-fallback-fails", "neterr-fallback-ok", "neterr-fallback-fails", "neterr-no-fallbacks",
		"plainerr-no-fallback", "no-fallbacks-refresh-with-down-main", "partial-active", "refail-after-backoff", "probe-failed-by-rcode",
		"rcode-reply-passed-through", "queries-during-health-check", "query-before-first-health-check", "refresh-reports-all-mains-down")
	st.Finish(t)

	ctx := context.Background()

	rapid.Check(t, func(t *rapid.T) {
		nMain := rapid.IntRange(1, 3).Draw(t, "mains")
		nFb := rapid.SampledFrom([]int{0, 1, 1, 2, 2}).Draw(t, "fallbacks")
		backoff := vc17DrawBackoff(t)
		tmpl := rapid.SampledFrom([]string{"${RANDOM}.hc.verif.test", "static.hc.verif.test.", "${RANDOM}-${RANDOM}.x.hc.verif.test"}).Draw(t, "tmpl")
		seed := rapid.Uint64().Draw(t, "pickSeed")

		dummy := func(n int) (cs []*UpstreamPlainConfig) {
			for range n {
				cs = append(cs, &UpstreamPlainConfig{})
			}

			return cs
		}
		h := vc17NewHandler(dummy(nMain), dummy(nFb), backoff, 0, tmpl, seed)
		var mains, fbs []vc17Node
		var fakes []*vc17Fake
		for i := range nMain {
			f := &vc17Fake{name: fmt.Sprintf("main%d", i), main: true, idx: i}
			mains, fakes = append(mains, f), append(fakes, f)
		}

		for i := range nFb {
			f := &vc17Fake{name: fmt.Sprintf("fb%d", i), idx: i}
			fbs, fakes = append(fbs, f), append(fakes, f)
		}

		vc17Install(h, mains, fbs, true)
		e := vc17NewEnv(h, mains, fbs, backoff)
		for _, f := range fakes {
			f.env = e
		}

		fmt.Fprintf(&e.hist, "m%d f%d b%s | ", nMain, nFb, backoff)

		fail := func(format string, args ...any) { t.Fatalf(format, args...) }
		ambiguous := false
		refresh := func() bool {
			if err := e.refresh(ctx, fail); err != nil {
				ambiguous = true

				return false
			}

			return true
		}

		doQuery := func() {
			name := rapid.SampledFrom(vc17QNames).Draw(t, "qname")
			qt := rapid.SampledFrom(vc17QTypes).Draw(t, "qtype")
			id := rapid.OneOf(rapid.Uint16(), rapid.SampledFrom([]uint16{0, 0xffff})).Draw(t, "id")
			e.query(ctx, fail, name, qt, id, rapid.Bool().Draw(t, "edns"))
		}

		setMode := func(f *vc17Fake, m vc17Mode) {
			f.mode = m
			fmt.Fprintf(&e.hist, "S%s=%s ", f.name, vc17ModeNames[m])
		}

		nOps := rapid.IntRange(4, 40).Draw(t, "nOps")
	ops:
		for range nOps {
			switch rapid.IntRange(0, 10).Draw(t, "op") {
			case 0, 1, 2:
				doQuery()
			case 10:
				// A health-check round with queries in flight.
				ids := rapid.SliceOfN(rapid.Uint16(), 1, 4).Draw(t, "during")
				if err := e.concurrent(ctx, fail, rapid.SampledFrom(vc17QTypes).Draw(t, "qtype"), ids); err != nil {
					ambiguous = true

					break ops
				}
			case 3, 4:
				if !refresh() {
					break ops
				}
			case 5, 6:
				f := rapid.SampledFrom(fakes).Draw(t, "node")
				setMode(f, vc17DrawMode(t, "mode"))
			case 7, 8:
				e.advance(vc17DrawDelta(t, e))
			case 9:
				// Outage and recovery of one main in one go; every step is
				// an ordinary checked operation.
				f := fakes[rapid.IntRange(0, nMain-1).Draw(t, "outageOf")]
				down := vc17Mode(rapid.IntRange(1, int(vc17ModeCount)-1).Draw(t, "outageMode"))
				setMode(f, down)
				if !refresh() {
					break ops
				}

				doQuery()
				e.advance(vc17DrawDelta(t, e))
				setMode(f, vc17ModeOK)
				if !refresh() {
					break ops
				}

				doQuery()
			}
		}

		if ambiguous {
			st.Class("clock-ambiguous-discarded")
			t.Skip("wall clock crossed a backoff boundary inside a refresh")
		}

		nt := ""
		if e.nontrivial {
			nt = e.hist.String()
		}

		cls := make([]string, 0, len(e.classes)+2)
		for c := range e.classes {
			cls = append(cls, c)
		}

		cls = append(cls, fmt.Sprintf("mains=%d", nMain), fmt.Sprintf("fallbacks=%d", nFb))
		st.Case(nt, cls...)
		if e.nontrivial && st.WantSample() {
			st.Sample(e.hist.String())
		}
	})
}
