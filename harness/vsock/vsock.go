// Package vsock holds the socket-level client used by the C06 checks: it sends
// a history of queries followed by sentinels and tells an unanswered query from
// a slow one by two complete round trips.
package vsock

import (
	"crypto/sha256"
	"encoding/binary"
	"encoding/hex"
	"fmt"
	"io"
	"net"
	"strings"
	"time"

	"github.com/miekg/dns"
	"verif.local/harness/vwire"
)

// Digest keeps the echoed description short enough for a 512-octet UDP
// response; any difference in the decoded request changes it.
func Digest(desc string) string {
	sum := sha256.Sum256([]byte(desc))

	return hex.EncodeToString(sum[:])
}

// Expect classifies a query by its own bytes: "" = no response expected,
// otherwise "rcode=<n>" or "echo:<description>".
func Expect(wire []byte) string {
	m, err := vwire.RefDecode(wire)
	switch {
	case err != nil:
		return ""
	case m.Response:
		return ""
	case m.Opcode != dns.OpcodeQuery && m.Opcode != dns.OpcodeNotify:
		return fmt.Sprintf("rcode=%d", dns.RcodeNotImplemented)
	case len(m.Question) != 1, len(m.Answer) > 1, len(m.Ns) > 1:
		return fmt.Sprintf("rcode=%d", dns.RcodeFormatError)
	default:
		return "echo:" + Digest(vwire.Describe(m, nil))
	}
}

func Got(resp *dns.Msg) string {
	if resp == nil {
		return ""
	}

	for _, rr := range resp.Answer {
		if txt, ok := rr.(*dns.TXT); ok {
			return "echo:" + strings.Join(txt.Txt, "")
		}
	}

	return fmt.Sprintf("rcode=%d", resp.Rcode)
}

func Sentinel(id uint16) []byte {
	m := (&dns.Msg{}).SetQuestion("sentinel.verif.test.", dns.TypeA)
	m.Id = id
	b, _ := m.Pack()

	return b
}

// Round sends wires followed by a sentinel on one socket or connection and
// collects the responses by ID.  If a response listed in expect has not arrived
// when the sentinel's has, a second sentinel is sent and awaited: two complete
// round trips after the query was received are taken as confirmation that the
// server dropped it (settled = true).  A missing sentinel response is a
// time-out (err != nil), never a verdict.
func Round(tcp bool, addr net.Addr, wires [][]byte, sentinelID, sentinel2ID uint16, expect map[uint16]bool, split int) (resps map[uint16]*dns.Msg, settled bool, err error) {
	network := "udp"
	if tcp {
		network = "tcp"
	}

	c, err := net.Dial(network, addr.String())
	if err != nil {
		return nil, false, err
	}
	defer c.Close()

	send := func(w []byte) error {
		if tcp {
			w = append(binary.BigEndian.AppendUint16(nil, uint16(len(w))), w...)
		}

		_, werr := c.Write(w)

		return werr
	}

	var out []byte
	for _, w := range append(append([][]byte{}, wires...), Sentinel(sentinelID)) {
		if tcp {
			out = binary.BigEndian.AppendUint16(out, uint16(len(w)))
			out = append(out, w...)
		} else if err = send(w); err != nil {
			return nil, false, err
		}
	}

	if tcp {
		// split > 0: deliver the stream in two segments, cut split octets into
		// the first frame's body, so that the server sees a partial frame first.
		if cut := 2 + split; split > 0 && cut < len(out) {
			if _, err = c.Write(out[:cut]); err != nil {
				return nil, false, err
			}

			time.Sleep(3 * time.Millisecond)
			out = out[cut:]
		}

		if _, err = c.Write(out); err != nil {
			// The server may close the connection on a query it rejects while
			// the rest of the stream is still being written; whatever it has
			// sent before that is read below, and the closed connection is a
			// settled outcome.
			if !strings.Contains(err.Error(), "reset") && !strings.Contains(err.Error(), "broken pipe") {
				return nil, false, err
			}

			err = nil
		}
	}

	recv := func() (m *dns.Msg, rerr error) {
		var b []byte
		if tcp {
			var l uint16
			if rerr = binary.Read(c, binary.BigEndian, &l); rerr != nil {
				return nil, rerr
			}

			b = make([]byte, l)
			if _, rerr = io.ReadFull(c, b); rerr != nil {
				return nil, rerr
			}
		} else {
			b = make([]byte, 65536)
			var n int
			if n, rerr = c.Read(b); rerr != nil {
				return nil, rerr
			}

			b = b[:n]
		}

		m = &dns.Msg{}
		if uerr := m.Unpack(b); uerr != nil {
			return nil, fmt.Errorf("server sent an undecodable response: %w", uerr)
		}

		return m, nil
	}

	missing := func() bool {
		for id := range expect {
			if _, ok := resps[id]; !ok {
				return true
			}
		}

		return false
	}

	resps = map[uint16]*dns.Msg{}
	seen1, seen2, sent2 := false, false, false
	// A datagram can be lost on a loaded machine (full socket buffer): over UDP
	// an awaited sentinel is sent again, up to three times, before the round is
	// given up as a time-out.  A repeated sentinel changes nothing for the
	// verdict: its response only proves that everything sent before it has been
	// handled.
	resends := 0
	for {
		switch {
		case !tcp && (!seen1 || (sent2 && !seen2)):
			_ = c.SetReadDeadline(time.Now().Add(2 * time.Second))
		case !seen1 || (sent2 && !seen2):
			_ = c.SetReadDeadline(time.Now().Add(8 * time.Second))
		default:
			// Both what is expected and the sentinel have arrived (or the
			// second sentinel has): a short grace for a response that must
			// not exist.
			_ = c.SetReadDeadline(time.Now().Add(20 * time.Millisecond))
		}

		m, rerr := recv()
		if rerr != nil {
			if tcp && !seen1 && (rerr == io.EOF || strings.Contains(rerr.Error(), "reset") || rerr == io.ErrUnexpectedEOF) {
				// The server closed the connection on a bad query; that is a
				// settled outcome for everything on this connection.
				return resps, true, nil
			}

			if !seen1 || (sent2 && !seen2) {
				if ne, ok := rerr.(net.Error); ok && ne.Timeout() && !tcp && resends < 3 {
					resends++
					id := sentinelID
					if seen1 {
						id = sentinel2ID
					}

					if err = send(Sentinel(id)); err != nil {
						return resps, false, err
					}

					continue
				}

				return resps, false, fmt.Errorf("timed out waiting for a sentinel response: %w", rerr)
			}

			return resps, true, nil
		}

		switch m.Id {
		case sentinelID:
			if seen1 {
				continue
			}

			seen1 = true
			if missing() && !sent2 {
				sent2 = true
				if err = send(Sentinel(sentinel2ID)); err != nil {
					return resps, false, err
				}
			}
		case sentinel2ID:
			if seen2 {
				continue
			}

			seen2 = true
			if missing() {
				// Two round trips have completed and an expected response is
				// still missing.  Requests are served concurrently, so on a
				// loaded machine the answer may simply be late, and over UDP
				// the query or its answer may have been lost: wait, send the
				// unanswered queries once more over UDP, and wait again,
				// before concluding that the server does not answer them.
				lateWait(c, recv, resps, missing, 3*time.Second)
				if missing() && !tcp {
					for _, w := range wires {
						if len(w) >= 2 && expect[binary.BigEndian.Uint16(w)] && resps[binary.BigEndian.Uint16(w)] == nil {
							if err = send(w); err != nil {
								return resps, false, err
							}
						}
					}

					lateWait(c, recv, resps, missing, 3*time.Second)
				}

				return resps, true, nil
			}
		default:
			resps[m.Id] = m
		}
	}
}

// lateWait reads responses for up to d or until nothing expected is missing.
func lateWait(c net.Conn, recv func() (*dns.Msg, error), resps map[uint16]*dns.Msg, missing func() bool, d time.Duration) {
	end := time.Now().Add(d)
	for missing() && time.Now().Before(end) {
		_ = c.SetReadDeadline(end)
		m, rerr := recv()
		if rerr != nil {
			return
		}

		if _, dup := resps[m.Id]; !dup {
			resps[m.Id] = m
		}
	}
}
